#!/usr/bin/env python3
"""Regenerates MANIFEST.json from the table below (run by hand after adding a check)."""
import json, os
HERE = os.path.dirname(os.path.abspath(__file__))
BASE = json.load(open("/root/.vp/BASELINE.json"))["cmd"] if os.path.exists("/root/.vp/BASELINE.json") else "cd /repo && /venv/bin/python -m pytest -ra -q -p no:cacheprovider --timeout=900 --continue-on-collection-errors"
PIPE_NOTE = ("Trusted base: CPython, the vendored corpus (sha256-pinned), the layout operators' meaning-preservation argument (DESIGN 3.1), "
             "docs/*_rules.rst as the specification of rule classes. Bounded: seeds x <=1 layout deviation x <=1 option deviation (see evidence.coverage.bound).")
C = {}
def claim(pid, cat, text, ref, technique, note=PIPE_NOTE):
    C[pid] = dict(property_id=pid, quick_cmd=f"./check {pid} --tier quick", thorough_cmd=f"./check {pid} --tier thorough",
                  evidence_file=f"evidence/{pid}.json", replay_cmd_template=f"./check {pid} --replay {{path}}", engine="vsgmc",
                  level_claimed=dict(category=cat, text=text, design_ref=ref), level_note=note, technique=technique)

claim("C03", "model_checking",
      "Every rule application inside every explored --fix execution of the real pipeline is checked against the documented class of that rule (layout groups: only whitespace tokens change; case: only letter case, literals and line lengths untouched; naming/length/unfixable/fixable:false/non-error severity/disabled: no change, disabled never called). Exhaustive within the stated input/config bound.",
      "DESIGN.md §6 C03", "bounded-exhaustive exploration of the real fix pipeline; per-transition class predicate")
claim("C07", "model_checking",
      "For every fix transition of a documented whitespace/indent/alignment/case rule in every explored execution, the set of changed lines equals the set of lines of the violations handed to vhdlFile.update, line count unchanged, line numbers inside the file.",
      "DESIGN.md §6 C07", "bounded-exhaustive exploration of the real fix pipeline; per-transition line-set equality")

ALL = [f"C{i:02d}" for i in range(1, 21)]
NA_REASON = "check not built yet in this session (planned, see DESIGN.md §6); no claim is made"
m = {
    "version": 1,
    "setup_cmd": "./check --setup",
    "hooks": {"guard": "VSG_VERIF", "enable": "none needed: observation points are installed at run time on the instances the real code creates (DESIGN §3.4); ./check exports VSG_VERIF=1 for completeness",
              "baseline_off_cmd": BASE.replace(" --junitxml=<file>", ""), "source_commits": [], "add_only": True},
    "engines": [{"name": "vsgmc", "path": "vsgmc/", "serves_properties": sorted(C), "kind_free_text": "home-grown explicit-state / bounded-exhaustive explorer driving the real VSG code in-process (Python)"}],
    "checks": [C[k] for k in sorted(C)],
    "not_applicable": [{"property_id": p, "reason": NA_REASON} for p in ALL if p not in C],
    "notes": "All checks run /venv/bin/python against /repo's working tree (editable install; asserted at start-up). Known genuine defects of the pinned tree are listed in known_findings.json.",
}
json.dump(m, open(os.path.join(HERE, "MANIFEST.json"), "w"), indent=1)
print("claimed:", sorted(C))
