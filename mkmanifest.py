#!/usr/bin/env python3
"""Regenerates MANIFEST.json from the table below (run by hand after adding a check)."""
import json, os
HERE = os.path.dirname(os.path.abspath(__file__))
BASE = json.load(open("/root/.vp/BASELINE.json"))["cmd"] if os.path.exists("/root/.vp/BASELINE.json") else "cd /repo && /venv/bin/python -m pytest -ra -q -p no:cacheprovider --timeout=900 --continue-on-collection-errors"
PIPE_NOTE = ("Trusted base: CPython, the vendored corpus (sha256-pinned), the layout operators' meaning-preservation argument (DESIGN 3.1), "
             "docs/*_rules.rst as the specification of rule classes. Bounded: seeds x <=1 layout deviation x <=1 option deviation, the rule-focused slice F, the configuration that enables every optional rule and the whole design on one line (see evidence.coverage.bound and DESIGN 17).")
NOTE_PLAIN = ("Trusted base: CPython, the vendored corpus (sha256-pinned), the documented option domains (specs/option_domains.json), the parsers of VSG's own report formats written in the check. "
              "Bounded as stated in evidence.coverage.")
C = {}
def claim(pid, cat, text, ref, technique, note=PIPE_NOTE):
    C[pid] = dict(property_id=pid, quick_cmd=f"./check {pid} --tier quick", thorough_cmd=f"./check {pid} --tier thorough",
                  evidence_file=f"evidence/{pid}.json", replay_cmd_template=f"./check {pid} --replay {{path}}", engine="vsgmc",
                  level_claimed=dict(category=cat, text=text, design_ref=ref), level_note=note, technique=technique)

claim("C01", "model_checking",
      "Every rule application inside every explored --fix execution of the real pipeline keeps the code-token sequence (non-structural rules: identical modulo case outside literals; structural rules: identical after erasing the six documented redundant elements, and only for (rule, allowance) pairs on a reviewed list); the model the run ends with and the bytes written are compared with the model it started from. Exhaustive within the stated input/config bound.",
      "DESIGN.md §6 C01", "bounded-exhaustive exploration of the real fix pipeline; per-transition and end-to-end token-sequence equivalence modulo a normal form")
claim("C02", "model_checking",
      "A numbered comment is placed at every whitespace gap, line end and line boundary of every seed in the bound; after every rule application the ordered list of comment/pragma/preprocessor texts must be unchanged (documented normalisation aside) unless an allow-listed remover deleted entries, no code may be left on the line of a comment, and the written text is re-read and compared with the final model.",
      "DESIGN.md §6 C02", "bounded-exhaustive exploration of the fix pipeline over all single comment placements; per-transition comment-sequence invariant")
claim("C03", "model_checking",
      "Every rule application inside every explored --fix execution of the real pipeline is checked against the documented class of that rule (layout groups: only whitespace tokens change; case: only letter case, literals and line lengths untouched; naming/length/unfixable/fixable:false/non-error severity/disabled: no change, disabled never called; a run in which only never-change rules found anything does not rewrite the file). Exhaustive within the stated input/config bound.",
      "DESIGN.md §6 C03", "bounded-exhaustive exploration of the real fix pipeline; per-transition class predicate")
claim("C04", "exploration",
      "Tokenizer: exhaustive over all strings up to length 5 over a 28-symbol alphabet (quick) / 30 symbols plus length 6 over a 20-symbol core (thorough); parser: parse/emit identity, full classification and line-break count on every single layout deviation of the seeds and on the one-line form of every comment-free seed; files without fixable violations (violation-free, or reporting only through unfixable / fixable:false / non-error rules): content, inode, mtime, mode untouched by --fix / --fix --backup / plain runs of the real main().",
      "DESIGN.md §6 C04", "exhaustive enumeration of strings up to a length bound and of single layout deviations against the real code", NOTE_PLAIN)
claim("C05", "exploration",
      "For every seed and every single meaning-preserving re-layout the property names (whitespace resize/removal/insertion, tab, line split/join at whitespace, end-of-line and own-line comments, blank lines, indentation, trailing whitespace, case of one or all words, all line breaks removed) the role sequence of the re-parsed variant equals that of the seed and the variant is accepted; thorough adds all seeds and 2-deviation pairs on the generated singles.",
      "DESIGN.md §6 C05", "bounded-exhaustive differential enumeration of re-layouts against the real classifier", NOTE_PLAIN)
claim("C06", "model_checking",
      "Explicit-state search over the real analyze(): per input, every enabled rule's analyze edge is taken from the parsed state with a write barrier and canonical-state hashing; when all edges are self-loops the state graph has closed on one node, which gives order- and subset-independence for all orders and subsets; mutating edges are followed and compared; reverse order, repeat, subsets and PYTHONHASHSEED 1/2 are executed concretely.",
      "DESIGN.md §6 C06", "explicit-state search over the real analyze transition function with canonical-state hashing and closure detection")
claim("C07", "model_checking",
      "For every fix transition of a documented whitespace/indent/alignment/case rule in every explored execution, the set of changed lines equals the set of lines of the violations handed to vhdlFile.update, line count unchanged, line numbers inside the file.",
      "DESIGN.md §6 C07", "bounded-exhaustive exploration of the real fix pipeline; per-transition line-set equality")
claim("C08", "model_checking",
      "End state of every explored --fix execution: written text accepted, (role, value, indent) of a fresh parse equal to the final model, report after fixing equal to the report of a fresh check of the written file; the first transition that breaks re-readability is located by per-transition probing.",
      "DESIGN.md §6 C08", "bounded-exhaustive exploration of the fix pipeline; end-state re-parse equivalence and report differential")
claim("C09", "model_checking",
      "Explicit functional graph of texts under y = fix_c(x) computed by the real apply_rules: from every start variant edges are followed to a fixpoint, a cycle or 6 steps; holds iff every node with an in-edge is a fixpoint.",
      "DESIGN.md §6 C09", "explicit-state exploration of the functional graph of texts under fix; fixpoint / cycle classification")
claim("C10", "model_checking",
      "In every model state reached immediately after a rule fixed (all effective transitions of all explored executions) the rule's fix is re-applied on a deep copy and must change nothing.",
      "DESIGN.md §6 C10", "bounded-exhaustive exploration of the fix pipeline; idempotence of each rule's fix in every reached post-fix state")
claim("C11", "model_checking",
      "The tag state machine is explored exhaustively (all tag-event sequences to depth 3 quick / 4 thorough over a 14-symbol alphabet) with the real parse+analysis compared against a reference model written from docs/code_tags.rst; every placement of off/on pairs and next-line tags at admissible line boundaries of real seeds is compared with the model filter of the neutral-comment report.",
      "DESIGN.md §6 C11", "exhaustive exploration of the tag state machine to a depth and of tag placements, real code against a reference model")
claim("C12", "exploration",
      "For every live rule and every configurable attribute all 81 assignments of {unset,v1,v2} to the four configuration levels go through the real configure path and are compared with the precedence model; for rules in two groups one attribute through each group; two-file merges in both orders; layered vs single-level behavioural agreement on fixtures; deprecated/unknown ids at rule level and in per-file sections (also next to a valid rule section) must be configuration errors.",
      "DESIGN.md §6 C12", "exhaustive enumeration of the four-level precedence lattice per rule and attribute on the real configure path against a reference model", NOTE_PLAIN)
claim("C13", "model_checking",
      "Reference model of the phase gate against the real apply_rules for N in 1..7, all skip sets of size <= 2 (all 128 on the smallest seeds), phase re-assignments and severity flips: gated report is the model prefix of the all-phases report, announced stop phase, a configured phase is the phase the rule runs in, a --fix run that fixes nothing reports what the gated check reports, --fix_phase N applies no rule of a later or skipped phase and equals the phase-N boundary text of the full fix.",
      "DESIGN.md §6 C13", "explicit enumeration of the phase-gate state space on the real code against a reference model")
claim("C14", "exploration",
      "All ordered file sets of size 1-2 (3 thorough) over an 11-file alphabet (among them a zero-byte file and one rule reporting twice on one line) x 5 severity configurations x {gated,-ap,--fix} x 3 stdout formats through the real main() with --json --junit --quality_report; every artefact parsed back and compared with the ground set; counts against rows; exit status against error-type violations and processing failures.",
      "DESIGN.md §6 C14", "bounded-exhaustive enumeration of file sets x configurations x formats against the real CLI; projection consistency oracle", NOTE_PLAIN)
claim("C15", "model_checking",
      "Process-global state graph under apply_rules(file) edges (fingerprint of every module/class-level container) must stay on one node; all histories of length <= 3 over a 10-file alphabet (and over a sub-alphabet configured through file_list in another order than the batch) compared with solo results; main() under a controlled pool with every task-to-worker assignment enumerated; real Pool as conformance; by-name vs --stdin on every seed.",
      "DESIGN.md §6 C15", "explicit-state exploration of process-global state with closure check; exhaustive enumeration of task-to-worker assignments under a controlled pool")
claim("C16", "fault_enumeration",
      "Every OS-level call of the real --fix history, the read included (failure before the first or in the middle of the lines), is a crash point (kill before/after, torn writes) and a fault site (6 OSError kinds, singly and in ordered pairs), plus a rule raising at its m-th repair, x backup x modes x inputs (among them a Latin-1 file checked against the fixed bytes of its UTF-8 twin) x a stale backup; executions run in forked children; the all-or-nothing / mode / backup / tmp-file invariant is read off the directory.",
      "DESIGN.md §6 C16", "exhaustive enumeration of crash points and injected OS-call failures over the real write-back history",
      "Trusted base: CPython, POSIX rename atomicity, the interception points (names os/shutil/open as seen from vsg.apply_rules and vsg.vhdlFile.utils). Kernel-level torn renames and power loss without fsync are outside the model.")
claim("C17", "exploration",
      "For each configuration stack (styles, every documented option value on a representative rule, generic attributes at each level, two-file stacks, indent/pragma/severity/skip_phase/linesep keys): -oc emitted twice through the real main() must be byte-identical, -rc fragments must agree, and violations / fixed text / exit status under the emitted file equal those under the stack on the listed seeds.",
      "DESIGN.md §6 C17", "bounded-exhaustive enumeration of configuration stacks; round-trip and behavioural differential through the real CLI", NOTE_PLAIN)
claim("C18", "model_checking",
      "Monitored invariant at every point where any rule obtains its tokens of interest (fix and check stages of every explored execution) and at every splice: index == recomputed index, every region is the identical slice at its recorded start, end index consistent, splices carry only tokens of their own slice.",
      "DESIGN.md §6 C18", "bounded-exhaustive exploration of the fix+check pipeline with a monitored state invariant")
claim("C19", "exploration",
      "Every live rule analysed and fixed in isolation on every seed (and under documented option values on its fixture), the whole pipeline on every variant of the shared universe, and every single-token mutation of small seeds through the real main(): no exception, no hang within the horizon, rejected files reported with a located message, exit 1 and the next file still processed.",
      "DESIGN.md §6 C19", "bounded-exhaustive enumeration of rule x input x option and of single-token mutations against the real code, with a watchdog", NOTE_PLAIN)
claim("C20", "exploration",
      "Per seed all fix_only selections derived from its all-phases report (every rule 'all', also with a reporting rule demoted to Warning; nothing, in three spellings; each rule 'all', each reported line, adjacent pairs in both orders and with repetition, an unreported line, no line) through the real apply_rules with a per-transition monitor and the line-locality oracle for documented line-local rules.",
      "DESIGN.md §6 C20", "bounded-exhaustive enumeration of fix_only selections against the real code with a per-transition monitor", NOTE_PLAIN)

ALL = [f"C{i:02d}" for i in range(1, 21)]
NA_REASON = "check not built yet in this session (planned, see DESIGN.md §6); no claim is made"
m = {
    "version": 1,
    "setup_cmd": "./check --setup",
    "hooks": {"guard": "VSG_VERIF", "enable": "none needed: observation points are installed at run time on the instances the real code creates (DESIGN §3.4); ./check exports VSG_VERIF=1 for completeness",
              "baseline_off_cmd": BASE.replace(" --junitxml=<file>", ""), "source_commits": [], "add_only": True},
    "engines": [{"name": "vsgmc", "path": "vsgmc/", "serves_properties": sorted(C), "kind_free_text": "home-grown explicit-state / bounded-exhaustive explorer driving the real VSG code in-process (Python)"}],
    "checks": [C[k] for k in sorted(C)],
    "not_applicable": [{"property_id": p, "reason": NA_REASON} for p in ALL if p not in C],
    "notes": "All checks run /venv/bin/python against /repo's working tree (editable install; asserted at start-up). Known genuine defects of the pinned tree are listed in known_findings.json.",
}
json.dump(m, open(os.path.join(HERE, "MANIFEST.json"), "w"), indent=1)
print("claimed:", sorted(C))
