#!/usr/bin/env python3
"""Adds the keys of a VSGMC_DUMP_KEYS file to known_findings.json (run by hand after triage; never at check time)."""
import json, sys
kf = json.load(open("/verif/known_findings.json"))
have = {(e["property"], e["key"]) for e in kf["findings"]}
n = 0
for f in sys.argv[1:]:
    for x in json.load(open(f)):
        if (x["property"], x["key"]) in have:
            continue
        kf["findings"].append({"property": x["property"], "key": x["key"], "witness": x["witness"], "what_fails": json.dumps(x["detail"], default=str)[:400], "triage": "TODO"})
        have.add((x["property"], x["key"]))
        n += 1
kf["findings"].sort(key=lambda e: (e["property"], e["key"]))
json.dump(kf, open("/verif/known_findings.json", "w"), indent=1)
print("added", n, "total", len(kf["findings"]))
