#!/usr/bin/env python3
"""tools/kf_add.py [--session <text>] <VSGMC_DUMP_KEYS file> ...
Adds the keys of dump files to known_findings.json (run by hand after triage; never at check time).  The triage text is chosen
by the effect kind of the key; anything without a matching group is refused (it has to be looked at and given a group here)."""
import json, sys
GROUPS = [
    (("comment_lost", "comment_duplicated", "comment_absorbed_text", "comment_text_changed", "comments_reordered", "code_left_on_the_line_of_a_comment",
      "code_token_left_behind_a_comment_on_its_line", "written_comment", "written_code_tokens_differ_from_model", "own_line_comment_removed"),
     "genuine defect of the pinned tree, group 'comments and line joining' (DESIGN 14.2): a rule that joins, moves, removes or re-creates tokens does not carry a comment / preprocessor line "
     "that stands between them (or leaves code behind it, or edits inside a delimited comment); needs the rule's fix to be re-thought, not small/safe to repair here"),
    (("code_tokens_changed_beyond_redundant_elements", "non_structural_rule_changed_code_tokens", "final_model_differs", "written_text_tokenises_differently", "rule_changed_non_whitespace", "case_rule_changed"),
     "genuine defect of the pinned tree, group 'rules that change more than redundant elements / more than their class allows' (DESIGN 14.2); not small/safe to repair here"),
    (("output_rejected", "tokens_differ", "indent_differs", "roles_differ", "report_after_fix_differs_from_fresh_check"),
     "genuine defect of the pinned tree, group 'written text read back differently' (DESIGN 14.2): consequence of the comment / structure defects above or of stale indentation / alignment state after fixing; not small/safe to repair here"),
    (("transient", "cycle:", "long_tail", "second_fix_changes_text"),
     "genuine defect of the pinned tree, group 'no convergence' (DESIGN 14.2): a second application still changes the text; needs the alignment / structure rules involved to be re-thought"),
    (("changed_unreported_line", "reported_line_not_changed", "line_count_changed"),
     "genuine defect of the pinned tree, group 'reported line is not the changed line' (DESIGN 14.2): the violation carries the line of the token left of the gap while the fix edits the line of the token right of it"),
    (("role_changed", "relayout_rejected", "token_count_differs", "code_tokens_differ"),
     "genuine defect of the pinned tree, group 'classification depends on layout' (DESIGN 14.2)"),
    (("exception:", "hang@", "hang_in_classification", "escaped:", "traceback:"),
     "genuine defect of the pinned tree, group 'crashes and hangs' (DESIGN 14.2): an accepted file (or a documented configuration) makes a rule or the classifier raise / not terminate; each call site needs its own guard and a decision what the rule should report there"),
    (("tagged_rule_reported_on_tagged_line",),
     "genuine defect of the pinned tree (DESIGN 14.2, code tags): the rule reports on the line after vsg_disable_next_line although every token of that line carries the tag: the tokens of its violation "
     "reach into the neighbouring, untagged line; same cause as the entries of the second session"),
    (("rule_switched_off_by_tags_for_the_whole_file_still_fixed",),
     "genuine defect of the pinned tree (DESIGN 14.2, code tags): a rule switched off by code tags for the whole file still fixes, because the token it acts on was inserted by an earlier rule and carries no tags"),
    (("unclassified_token_left",), "genuine defect of the pinned tree: form feed / no-break space accepted as separator but left unclassified (DESIGN 14.2)"),
]
args = sys.argv[1:]
session = ""
if args and args[0] == "--session":
    session = args[1]
    args = args[2:]
kf = json.load(open("/verif/known_findings.json"))
have = {(e["property"], e["key"]) for e in kf["findings"]}
n = 0
refused = []
for f in args:
    for x in json.load(open(f)):
        if (x["property"], x["key"]) in have:
            continue
        tri = None
        for pats, text in GROUPS:
            if any(p in x["key"] for p in pats):
                tri = text
                break
        if tri is None:
            refused.append((x["property"], x["key"]))
            continue
        kf["findings"].append({"property": x["property"], "key": x["key"], "witness": x["witness"], "what_fails": json.dumps(x["detail"], default=str)[:400], "triage": tri + (" [" + session + "]" if session else "")})
        have.add((x["property"], x["key"]))
        n += 1
kf["findings"].sort(key=lambda e: (e["property"], e["key"]))
json.dump(kf, open("/verif/known_findings.json", "w"), indent=1)
print("added", n, "total", len(kf["findings"]))
for r in refused:
    print("REFUSED (no triage group):", r)
