#!/usr/bin/env python3
"""tools/confirm_suite.py [ID ...]  : for every seeded change (default: those whose meta.json has no suite run yet) apply
seeded/<ID>/patch.diff in a scratch worktree of /repo HEAD, run the repository's baseline test command there and record in
meta.json how many of the stable tests of /root/.vp/BASELINE.json did not pass.  Nothing is applied to /repo."""
import json, os, subprocess, sys, glob, tempfile, xml.etree.ElementTree as ET
from concurrent.futures import ThreadPoolExecutor
BASE = json.load(open("/root/.vp/BASELINE.json"))
PAR = int(os.environ.get("PAR", "4"))
NX = int(os.environ.get("NX", "4"))

def run(cmd, **kw):
    return subprocess.run(cmd, shell=True, capture_output=True, text=True, **kw)

def one(ID):
    d = f"/verif/seeded/{ID}"
    wt = f"/var/tmp/suite_{ID}.{os.getpid()}"
    run(f"git -C /repo worktree add -q --detach {wt} HEAD")
    res = {"id": ID}
    try:
        p = run(f"git -C {wt} apply {d}/patch.diff")
        if p.returncode:
            res["error"] = "patch does not apply: " + p.stderr[-300:]
            return res
        env = dict(os.environ, PYTHONPATH=wt)
        env.pop("VSG_VERIF", None)
        out = tempfile.mktemp(suffix=".xml", dir="/var/tmp")
        cmd = BASE["cmd"].replace("cd /repo", f"cd {wt}").replace("<file>", out) + f" -n {NX}" + (" --no-cov" if os.environ.get("NOCOV", "1") == "1" else "")
        run(cmd, env=env)
        passed = set()
        for tc in ET.parse(out).getroot().iter("testcase"):
            if not any(c.tag in ("failure", "error", "skipped") for c in tc):
                passed.add(tc.get("classname") + "::" + tc.get("name"))
        os.remove(out)
        missing = [t for t in BASE["stable_pass"] if t not in passed]
        res["missing"] = missing
    finally:
        run(f"git -C /repo worktree remove --force {wt}")
    return res

ids = sys.argv[1:]
if not ids:
    for f in sorted(glob.glob("/verif/seeded/*/meta.json")):
        m = json.load(open(f))
        if not m.get("confirmed_by_me", {}).get("suite_run"):
            ids.append(f.split("/")[-2])
with ThreadPoolExecutor(PAR) as ex:
    for res in ex.map(one, ids):
        ID = res["id"]
        if "missing" not in res:
            print(ID, "ERROR", res.get("error"))
            continue
        f = f"/verif/seeded/{ID}/meta.json"
        m = json.load(open(f))
        c = m.setdefault("confirmed_by_me", {})
        c["suite_run"] = True
        c["suite"] = f"baseline test command (with -n {NX}" + (" --no-cov" if os.environ.get("NOCOV", "1") == "1" else "") + ") in a scratch worktree with the change applied, PYTHONPATH=<worktree>: {len(BASE['stable_pass'])} stable tests, {len(res['missing'])} not passing"
        c["suite_stable_pass_missing"] = res["missing"][:10]
        json.dump(m, open(f, "w"), indent=1)
        print(ID, "missing", len(res["missing"]), res["missing"][:3], flush=True)
