#!/venv/bin/python
"""Derives specs/focus_lines.json: for the fixture of every live rule X, the 0-based lines X itself reports on when run
with -ap on that fixture (rule enabled).  This is the rule-focused slice F of DESIGN §5: a change to X that keeps X's golden
test green must show on a neighbouring layout of exactly those lines.  Computed once on the pinned tree and committed, so
the universe does not move with the tree under test.  Run by hand."""
import json, os, sys
sys.path.insert(0, "/verif")
from vsgmc import base, corpus, drivers, explore
from vsgmc.props import configs_k1

def work(rid):
    sid = configs_k1.fixture_of(rid)
    r = explore.Result()
    if not sid:
        return r
    inv = configs_k1.inventory()[rid]
    cfg = {"rule": {rid: {"disable": False}}} if inv["disable"] else None
    ex = drivers.d_pipe({"id": sid, "lines": corpus.lines_of(sid), "style": None, "cfg": cfg}, [], fix=False, extra_argv=["-ap"])
    if ex.outcome != "ok" or ex.rl is None:
        return r
    lines = set()
    for rule in ex.rl.rules:
        if rule.unique_id != rid:
            continue
        for v in rule.violations:
            ln = v.get_line_number()
            if isinstance(ln, int):
                lines.add(ln - 1)
    r.extra["focus"] = {sid + "|" + rid: sorted(lines)}
    return r

rules = sorted(configs_k1.inventory())
m = explore.run(rules, work, horizon=60)
foc = m.extra.get("focus", {})
out = {}
for k, v in sorted(foc.items()):
    sid, rid = k.split("|")
    if v:
        out[rid] = {"seed": sid, "lines": v, "enable": bool(configs_k1.inventory()[rid]["disable"])}
json.dump(out, open("/verif/specs/focus_lines.json", "w"), indent=0, sort_keys=True)
print(len(foc), len(out), sum(len(v["lines"]) for v in out.values()))
