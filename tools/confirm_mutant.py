#!/usr/bin/env python3
"""tools/confirm_mutant.py <ID> [--skip-suite]  : confirms a seeded change delivered in /tmp/mut/out/<ID>.patch + <ID>_demo.py
in a scratch worktree (demo passes on the clean tree, fails with the change; the repository's test suite still passes with it)
and stores it as /verif/seeded/<ID>/{patch.diff,demo.py,meta.json}.  Nothing is ever applied to /repo."""
import json, os, shutil, subprocess, sys, tempfile, xml.etree.ElementTree as ET
ID = sys.argv[1]
skip = "--skip-suite" in sys.argv
src = os.environ.get("SRC", "/tmp/mut3/out")
wt = f"/var/tmp/confirm_{ID}.{os.getpid()}"
def run(cmd, **kw):
    return subprocess.run(cmd, shell=True, capture_output=True, text=True, **kw)
run(f"git -C /repo worktree add -q --detach {wt} HEAD")
res = {"id": ID}
try:
    env = dict(os.environ, PYTHONPATH=wt)
    env.pop("VSG_VERIF", None)
    a = run(f"cd {wt} && /venv/bin/python -W ignore {src}/{ID}_demo.py", env=env)
    res["demo_on_clean_tree_exit"] = a.returncode
    p = run(f"git -C {wt} apply {src}/{ID}.patch")
    res["patch_applies"] = p.returncode == 0
    b = run(f"cd {wt} && /venv/bin/python -W ignore {src}/{ID}_demo.py", env=env)
    res["demo_with_change_exit"] = b.returncode
    res["demo_output_with_change"] = (b.stdout + b.stderr)[-600:]
    if not skip:
        out = tempfile.mktemp(suffix=".xml", dir="/var/tmp")
        base = json.load(open("/root/.vp/BASELINE.json"))
        cmd = base["cmd"].replace("cd /repo", f"cd {wt}").replace("<file>", out)
        run(cmd, env=env)
        passed = set()
        for tc in ET.parse(out).getroot().iter("testcase"):
            if not any(c.tag in ("failure", "error", "skipped") for c in tc):
                passed.add(tc.get("classname") + "::" + tc.get("name"))
        os.remove(out)
        missing = [t for t in base["stable_pass"] if t not in passed]
        res["suite_stable_pass_missing"] = len(missing)
        res["suite_missing_examples"] = missing[:5]
finally:
    run(f"git -C /repo worktree remove --force {wt}")
ok = res.get("demo_on_clean_tree_exit") == 0 and res.get("patch_applies") and res.get("demo_with_change_exit") not in (0, None) and (skip or res.get("suite_stable_pass_missing") == 0)
res["confirmed"] = bool(ok)
print(json.dumps(res, indent=1))
if ok:
    d = f"/verif/seeded/{ID}"
    os.makedirs(d, exist_ok=True)
    shutil.copy(f"{src}/{ID}.patch", f"{d}/patch.diff")
    shutil.copy(f"{src}/{ID}_demo.py", f"{d}/demo.py")
    meta = {}
    if os.path.exists(f"{src}/{ID}_meta.json"):
        try:
            meta = json.load(open(f"{src}/{ID}_meta.json"))
        except Exception:
            meta = {"raw": open(f"{src}/{ID}_meta.json").read()[:2000]}
    meta["property"] = ID.split("_")[0]
    meta["confirmed_by_me"] = {"ran": f"scratch worktree of /repo HEAD: demo.py on the clean tree (exit {res['demo_on_clean_tree_exit']}), git apply patch.diff, demo.py again (exit {res['demo_with_change_exit']})"
                               + ("" if skip else f", then the repository's baseline test command with PYTHONPATH=<worktree>: {len(json.load(open('/root/.vp/BASELINE.json'))['stable_pass'])} stable tests, {res['suite_stable_pass_missing']} missing"),
                               "suite_run": not skip}
    json.dump(meta, open(f"{d}/meta.json", "w"), indent=1)
sys.exit(0 if ok else 1)
