#!/usr/bin/env python3
"""tools/index_evals.py <label> <eval log> ... : records the results of tools/try_mutant.sh runs (as written by the evaluation
queue: '#### <ID>' then '== <Cxx> exit=<n>' then '  key: ...' lines) in seeded/index.json."""
import json, re, sys
label, logs = sys.argv[1], sys.argv[2:]
idx = json.load(open("/verif/seeded/index.json"))
for log in logs:
    cur, chk = None, None
    for ln in open(log, errors="replace"):
        ln = ln.rstrip("\n")
        m = re.match(r"^#### (\S+)", ln)
        if m:
            cur = m.group(1)
            continue
        m = re.match(r"^== (C\d+) exit=(\d+)", ln)
        if m and cur:
            chk = {"when": label, "check": m.group(1), "exit": int(m.group(2)), "keys": []}
            e = idx.setdefault(cur, {"property": cur[:3], "runs": []})
            e["runs"] = [r for r in e["runs"] if not (r["when"] == label and r["check"] == chk["check"])] + [chk]
            continue
        m = re.match(r"^  key: (.*)$", ln)
        if m and chk is not None:
            chk["keys"].append(m.group(1))
json.dump(idx, open("/verif/seeded/index.json", "w"), indent=1, sort_keys=True)
print(len(idx))
