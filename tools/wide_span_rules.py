#!/venv/bin/python
"""Derives specs/wide_span_rules.json: rules whose violations (on their own fixture) carry a token slice of more than one line
although they are reported on one line.  Used by C11 to place tags strictly inside such constructs.  Run by hand."""
import json, os, sys
sys.path.insert(0, "/verif")
from vsgmc import base, corpus, drivers, explore
from vsgmc.props import c11, configs_k1

def work(rid):
    sid = configs_k1.fixture_of(rid)
    if not sid or len(corpus.lines_of(sid)) > 60:
        return None
    inv = configs_k1.inventory()[rid]
    cfg = {"rule": {rid: {"disable": False}}} if inv["disable"] else None
    ex = drivers.d_pipe({"id": sid, "lines": corpus.lines_of(sid), "style": None, "cfg": cfg}, [], fix=False, extra_argv=["-ap"])
    r = explore.Result()
    if ex.outcome != "ok" or ex.rl is None:
        return r
    best = 0
    for rule in ex.rl.rules:
        if rule.unique_id != rid:
            continue
        for v in rule.violations:
            sp = c11.span_of(ex, v)
            if sp:
                best = max(best, len(sp))
    r.extra["span"] = {rid: best}
    return r

rules = sorted(configs_k1.inventory())
m = explore.run(rules, lambda rid: work(rid) or explore.Result(), horizon=60)
spans = m.extra.get("span", {})
wide = {k: v for k, v in sorted(spans.items()) if v >= 2}
json.dump(wide, open("/verif/specs/wide_span_rules.json", "w"), indent=0)
print(len(spans), len(wide))
