#!/usr/bin/env python3
"""Runs the repository's baseline test command (guard off) and checks that every test in BASELINE.stable_pass passes."""
import json, os, subprocess, sys, tempfile, xml.etree.ElementTree as ET
b = json.load(open("/root/.vp/BASELINE.json"))
out = tempfile.mktemp(suffix=".xml", dir="/var/tmp")
cmd = b["cmd"].replace("<file>", out)
env = {k: v for k, v in os.environ.items() if k != "VSG_VERIF"}
subprocess.run(cmd, shell=True, env=env, stdout=subprocess.DEVNULL, stderr=subprocess.DEVNULL)
passed = set()
for tc in ET.parse(out).getroot().iter("testcase"):
    if not any(c.tag in ("failure", "error", "skipped") for c in tc):
        passed.add(tc.get("classname") + "::" + tc.get("name"))
os.remove(out)
missing = [t for t in b["stable_pass"] if t not in passed]
print(f"stable_pass={len(b['stable_pass'])} passed_now={len(passed)} missing={len(missing)}")
for t in missing[:20]: print("  MISSING", t)
sys.exit(1 if missing else 0)
