#!/bin/bash
# usage: tools/try_mutant.sh <patch> <prop> [<prop> ...]   -- evaluates a seeded change in a scratch worktree (never in /repo)
# prints, per property, the exit status and the VIOLATION/KNOWN-FINDING lines of the quick check run against the changed tree
set -u
patch=$(readlink -f "$1"); shift
wt=/var/tmp/vsgmc_mut.$$
git -C /repo worktree add -q --detach "$wt" HEAD || exit 2
if ! git -C "$wt" apply "$patch"; then echo "PATCH DOES NOT APPLY"; git -C /repo worktree remove --force "$wt"; exit 2; fi
cd /verif
mkdir -p /var/tmp/vsgmc_ev.$$
for p in "$@"; do
  cp evidence/$p.json /var/tmp/vsgmc_ev.$$/ 2>/dev/null
  out=$(VSGMC_REPO="$wt" ./check "$p" --tier ${TIER:-quick} 2>&1); st=$?
  echo "== $p exit=$st"
  echo "$out" | grep -E "^VIOLATION|^  key:|^HARNESS|^NOTE" | head -${LINES_MAX:-12}
  echo "$out" | tail -1
  cp /var/tmp/vsgmc_ev.$$/$p.json evidence/ 2>/dev/null   # evidence of a mutant run is not evidence
done
rm -rf /var/tmp/vsgmc_ev.$$
git -C /repo worktree remove --force "$wt"
