#!/bin/bash
# re-confirms seeded changes whose delivered files (SRC, default /tmp/mut3/out) differ from the copies kept under /verif/seeded
SRC=${SRC:-/tmp/mut3/out}
for p in $SRC/*.patch; do i=$(basename $p .patch)
  d=/verif/seeded/$i
  if [ ! -d $d ] || ! cmp -s $p $d/patch.diff || ! cmp -s $SRC/${i}_demo.py $d/demo.py || { [ -f $SRC/${i}_meta.json ] && ! grep -q what_it_breaks $d/meta.json; }; then
    echo -n "$i "; SRC=$SRC /venv/bin/python /verif/tools/confirm_mutant.py $i --skip-suite 2>&1 | grep -E '"confirmed"'
  fi
done
