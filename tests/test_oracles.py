"""Unit tests of the oracles and generators: for each, an example that must pass and one that must fail."""
import os
import sys
import unittest

sys.path.insert(0, os.path.dirname(os.path.dirname(os.path.abspath(__file__))))
from vsgmc import base, layout, normal  # noqa: E402
from vsgmc.props import c02, c11  # noqa: E402


def seq(lines):
    return base.code_seq(base.parse(lines).lAllObjects)


class TestNormalForm(unittest.TestCase):
    A = ["architecture rtl of e is", "begin", "  process begin", "    if a = '1' then", "      b <= c;", "    end if;", "  end process;", "end;"]

    def test_redundant_elements_are_erased(self):
        B = ["architecture rtl of e is", "begin", "  process is begin", "    if (a = '1') then", "      b <= c;", "    end if;", "  end process;", "end architecture rtl;"]
        self.assertEqual(normal.N(seq(self.A)), normal.N(seq(B)))

    def test_lost_token_is_not_erased(self):
        B = list(self.A)
        B[4] = "      b <= d;"
        self.assertNotEqual(normal.N(seq(self.A)), normal.N(seq(B)))
        C = list(self.A)
        C[3] = "    if (a) = '1' then"  # parentheses around part of the condition are not redundant
        self.assertNotEqual(normal.N(seq(self.A)), normal.N(seq(C)))

    def test_declaration_split(self):
        a = ["architecture rtl of e is", "  signal a, b : std_logic;", "begin", "end architecture rtl;"]
        b = ["architecture rtl of e is", "  signal a : std_logic;", "  signal b : std_logic;", "begin", "end architecture rtl;"]
        c = ["architecture rtl of e is", "  signal a : std_logic;", "  signal b : std_ulogic;", "begin", "end architecture rtl;"]
        self.assertEqual(normal.N(seq(a)), normal.N(seq(b)))
        self.assertNotEqual(normal.N(seq(a)), normal.N(seq(c)))

    def test_character_literal_case_matters(self):
        a = ["architecture rtl of e is", "  type t is ('X', '0');", "begin", "end architecture rtl;"]
        b = ["architecture rtl of e is", "  type t is ('x', '0');", "begin", "end architecture rtl;"]
        c = ["ARCHITECTURE rtl OF e IS", "  TYPE t IS ('X', '0');", "BEGIN", "END ARCHITECTURE rtl;"]
        self.assertNotEqual(normal.N(seq(a)), normal.N(seq(b)))
        self.assertEqual(normal.N(seq(a)), normal.N(seq(c)))


class TestCommentOracle(unittest.TestCase):
    def test_documented_normalisation(self):
        self.assertTrue(c02.fine_equiv("--comment", "-- comment"))
        self.assertTrue(c02.fine_equiv("--!doc", "--! doc"))
        self.assertTrue(c02.fine_equiv("--\tx  y", "-- x y"))
        self.assertFalse(c02.fine_equiv("-- a b", "-- ab"))
        self.assertFalse(c02.fine_equiv("-- a", "-- a b <= c;"))

    def test_classify(self):
        self.assertEqual(c02.classify(["-- a", "-- b"], ["-- a"])[0], "comment_lost")
        self.assertEqual(c02.classify(["-- a"], ["-- a", "-- a"])[0], "comment_duplicated")
        self.assertEqual(c02.classify(["-- a"], ["-- a x <= y;"])[0], "comment_absorbed_text")
        self.assertEqual(c02.classify(["-- a", "-- b"], ["-- b", "-- a"])[0], "comments_reordered")
        self.assertIsNone(c02.classify(["--a"], ["-- a"])[0])

    def test_code_after_comment(self):
        o = base.parse(["a <= b; -- c", "d <= e;"])
        toks = list(o.lAllObjects)
        self.assertIsNone(c02.code_after_comment(toks, [t.value for t in toks]))
        cr = next(i for i, t in enumerate(toks) if type(t).__name__ == "carriage_return")
        del toks[cr]
        self.assertIsNotNone(c02.code_after_comment(toks, [t.value for t in toks]))


class TestTagModel(unittest.TestCase):
    def test_model(self):
        m = c11.model_for_lines(["-- vsg_off", "x", "-- vsg_off r1", "x", "-- vsg_on", "x", "-- vsg_off r1 : why", "x", "-- vsg_on r1", "x", "-- vsg_disable_next_line r2", "-- vsg_disable_next_line r3", "x", "x"])
        self.assertEqual(m[2], c11.ALL)
        self.assertEqual(m[4], c11.ALL)  # a further tag does not re-enable anything
        self.assertEqual(m[6], frozenset())
        self.assertEqual(m[8], frozenset({"r1"}))
        self.assertEqual(m[10], frozenset())
        self.assertEqual(m[13], frozenset({"r2", "r3"}))
        self.assertEqual(m[14], frozenset())

    def test_unspecified(self):
        m = c11.model_for_lines(["-- vsg_off", "-- vsg_on r1", "x"])
        self.assertIsNone(m[3])


class TestLayout(unittest.TestCase):
    def test_operators_preserve_code_tokens(self):
        lines = ["architecture rtl of e is", "begin", "  a <= b and c; -- keep", "  x <= 20e3;", "end architecture rtl;"]
        si = layout.SeedInfo("t", lines)
        ref = base.code_values(base.parse(lines).lAllObjects)
        n = 0
        for op in si.ops([k for k in layout.ALL_OPS if k not in ("UP", "LO", "CAP", "ALLUP", "ALLLO", "WFF", "WNB")]):
            v = si.apply([op])
            self.assertEqual(base.code_values(base.parse(v).lAllObjects), ref, op)
            n += 1
        self.assertGreater(n, 40)

    def test_no_operator_inside_literals_or_comments(self):
        lines = ["a <= b; -- x y", 'c <= "a b";', "x <= 20e3;"]
        si = layout.SeedInfo("t", lines)
        for k, ln, c in si.ops(layout.ALL_OPS):
            if ln == 0 and k in layout.OPS_WS + layout.OPS_ADJ:
                self.assertLess(c, 7)
            if ln == 2 and k == "WI":
                self.assertLess(c, 5, "a space inside 20e3 is not a re-layout")


class TestNewOperators(unittest.TestCase):
    def test_glued_delimited_comment_only_where_tokens_survive(self):
        lines = ["a <= b / c;", "d <= e&f;"]
        si = layout.SeedInfo("t", lines)
        ops = si.ops(("CDG", "CDI"))
        self.assertTrue(ops)
        for op in ops:
            v = si.apply([op])
            toks = [t for t in __import__("vsg.tokens", fromlist=["x"]).create(v[op[1]]) if not t.isspace()]
            i, j = toks.index("/*"), toks.index("*/")
            self.assertEqual(toks[:i] + toks[j + 1:], [t for t in __import__("vsg.tokens", fromlist=["x"]).create(lines[op[1]]) if not t.isspace()], op)

    def test_identifier_case_mismatch_needs_two_occurrences(self):
        lines = ["architecture rtl of e is", "  signal s1 : std_logic;", "  signal lonely : std_logic;", "begin", "  s1 <= '1';", "end architecture rtl;"]
        si = layout.SeedInfo("t", lines)
        ops = si.ops(("UPI",))
        hit = {lines[ln][c:].split()[0].strip(";") for k, ln, c in ops}
        self.assertIn("s1", hit)
        self.assertNotIn("lonely", hit)
        self.assertNotIn("signal", hit)  # keywords are not identifiers


class TestMinimisation(unittest.TestCase):
    def test_violation_of_the_undeviated_seed_is_attributed_to_it(self):
        from vsgmc import explore, universe

        def fn(item):
            r = explore.Result()
            # "fails" on every variant of the seed, and additionally in its own way when a line break is inserted
            r.violations.append({"key": ("rule_x", "always"), "detail": {}, "item": {k: v for k, v in item.items() if k != "lines"}})
            if any(o[0] == "NL" for o in item.get("ops", ())):
                r.violations.append({"key": ("rule_x", "only_with_nl"), "detail": {}, "item": {k: v for k, v in item.items() if k != "lines"}})
            return r

        sid = universe.corpus.small_slice(max_lines=25)[0]
        it = universe.one_dev([sid], ("NL",))[0]
        explore._worker_fn, explore._worker_horizon = fn, 30.0
        explore._base_keys.clear()
        (_, r), = explore._run_chunk([(0, it)])
        keys = {v["key"] for v in r.violations}
        self.assertIn(("rule_x", "always", "@-"), keys)
        self.assertIn(("rule_x", "only_with_nl", "@NL"), keys)


if __name__ == "__main__":
    unittest.main()
