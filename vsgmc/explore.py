"""Generic exhaustive runner: a deterministic list of items is sharded over forked workers; every
item is executed under a SIGALRM watchdog; results (counters, state hashes, violations, samples) are
merged in the parent.  No item is sampled or skipped: the list *is* the bounded space."""
import multiprocessing
import os
import signal
import sys
import time
import traceback

from . import base


class Timeout(BaseException):
    pass


def _alarm(signum, frame):
    raise Timeout()


class Result:
    """what one execution returns to the parent (picklable, small)"""

    __slots__ = ("transitions", "effective", "states", "nontrivial", "violations", "notes", "sample", "extra")

    def __init__(self):
        self.transitions = 0
        self.effective = 0
        self.states = set()
        self.nontrivial = None  # hashable id if this execution was non-trivial
        self.violations = []  # list of dict(key=..., detail=..., item=...)
        self.notes = []  # blocked_by / informational
        self.sample = None
        self.extra = {}


_worker_fn = None
_worker_horizon = None


def repo_frame(tb):
    """innermost frame of the exception that lies in the repository under test"""
    best = None
    for fs in traceback.extract_tb(tb):
        fn = os.path.realpath(fs.filename)
        if fn.startswith(base.REPO + os.sep):
            best = f"{os.path.relpath(fn, base.REPO)}:{fs.name}"
    return best


def _run_chunk(chunk):
    out = []
    for idx, item in chunk:
        t0 = time.time()
        signal.signal(signal.SIGALRM, _alarm)
        signal.setitimer(signal.ITIMER_REAL, _worker_horizon)
        try:
            r = _worker_fn(item)
        except Timeout:
            r = Result()
            r.notes.append(("timeout", item_id(item)))
        except (Exception, SystemExit) as e:  # harness-level failure: never a property verdict
            r = Result()
            r.notes.append(("harness_exception", f"{type(e).__name__}: {e} @ {traceback.format_exc()[-1500:]}"))
        finally:
            signal.setitimer(signal.ITIMER_REAL, 0)
        r.extra["wall"] = time.time() - t0
        if r.violations:
            _minimise(item, r)
        for v in r.violations:
            if not v.get("_ctx_done"):
                v["key"] = tuple(v["key"] if isinstance(v["key"], (tuple, list)) else (v["key"],)) + context_of(v.get("item") if isinstance(v.get("item"), dict) else item)
                v["_ctx_done"] = True
        out.append((idx, r))
    return out


_base_keys = {}


def _tkey(k):
    return tuple(k) if isinstance(k, (tuple, list)) else (k,)


def _minimise(item, r):
    """fewest deviations first (DESIGN 3.6): a violation met on a layout variant, or under the configuration that enables every
    optional rule, is re-tried on smaller executions - the undeviated seed under the default configuration, the undeviated seed
    with only the culprit rule enabled, the undeviated seed under the same configuration - and is reported with the first of these
    that shows it as witness and context, so that one defect is one finding however many variants of the failing input are enumerated"""
    if not isinstance(item, dict) or "seed" not in item or "lines" in item:
        return
    ENALL = "%cfg:optional_rules.enable_all=true"
    iid = item.get("id", "")
    has_ops = bool(item.get("ops"))
    enall = iid.endswith(ENALL)
    if not has_ops and not enall:
        return
    try:
        from . import layout

        vid = layout.vid(item["seed"], [tuple(o) for o in item.get("ops", ())])
        if not iid.startswith(vid):
            return
        suffix = iid[len(vid):]
        core = {k: v for k, v in item.items() if k not in ("focus", "ops", "id", "cfg")}

        def cand(cfg, sfx):
            return dict(core, ops=[], cfg=cfg, id=item["seed"] + sfx)

        def keys_of(c):
            if c["id"] not in _base_keys:
                if len(_base_keys) > 500:
                    _base_keys.clear()
                signal.setitimer(signal.ITIMER_REAL, _worker_horizon)
                try:
                    rb = _worker_fn(dict(c))
                    _base_keys[c["id"]] = {_tkey(v["key"]) for v in rb.violations if not v.get("_ctx_done")}
                except Timeout:
                    _base_keys[c["id"]] = set()
                finally:
                    signal.setitimer(signal.ITIMER_REAL, 0)
            return _base_keys[c["id"]]

        for v in r.violations:
            if v.get("_ctx_done") or not (v.get("item") is None or (isinstance(v.get("item"), dict) and v["item"].get("id") == iid)):
                continue
            k = _tkey(v["key"])
            cands = []
            if item.get("cfg") and not enall:
                cands.append(cand(None, suffix.split("%cfg:")[0]))  # neither the layout deviation nor the configuration deviation is needed
            if enall:
                style_sfx = suffix[: -len(ENALL)]
                cands.append(cand(None, style_sfx))
                culprit = str(k[0])
                if culprit and culprit in (item.get("cfg") or {}).get("rule", {}):
                    cands.append(cand({"rule": {culprit: {"disable": False}}}, style_sfx + f"%cfg:{culprit}.disable=false"))
            if has_ops:
                cands.append(cand(item.get("cfg"), suffix))
            for c in cands:
                if k in keys_of(c):
                    v["item"] = {kk: x for kk, x in c.items() if kk != "lines"}
                    break
    except Timeout:
        raise
    except Exception:  # noqa  (minimisation is best effort: without it the violation keeps its own context)
        return


def product_raised(tb):
    """True if the innermost frame of the traceback that lies in the tree under test or in /verif lies in the tree under test"""
    for fs in reversed(traceback.extract_tb(tb)):
        fn = os.path.realpath(fs.filename)
        if fn.startswith(base.VERIF + os.sep):
            return False
        if fn.startswith(base.REPO + os.sep):
            return True
    return False


def context_of(item):
    """the part of a finding's identity that says under which kind of deviation it shows: the layout operators applied, the
    style, the configured option - so that a known finding of a rule under one kind of deviation does not mask the same
    rule failing under another"""
    if not isinstance(item, dict) or "seed" not in item:
        return ()
    ops = "+".join(sorted(o[0] for o in item.get("ops", ()))) or "-"
    st = item.get("style")
    raw = item.get("id", "").split("%cfg:")[1] if "%cfg:" in item.get("id", "") else ""
    cfg = raw.split("=")[0].split("~")[0]
    if cfg:
        cfg = cfg.split(".", 1)[1] if "." in cfg else cfg
        if cfg == "skip_phase":
            cfg = raw.split("#")[0]  # which phase is skipped is part of the context
    return ("@" + ops + ("%" + st if st else "") + (" cfg:" + cfg if cfg else ""),)


def item_id(item):
    if isinstance(item, dict):
        return item.get("id", repr(item)[:200])
    return repr(item)[:200]


class Merged:
    def __init__(self):
        self.evaluations = 0
        self.transitions = 0
        self.effective = 0
        self.states = set()
        self.nontrivial = set()
        self.violations = {}  # key -> (idx, violation dict)   first in enumeration order
        self.violation_count = 0
        self.notes = []
        self.samples = []
        self.extra = {}
        self.timeouts = []
        self.harness_errors = []
        self.budget_cut = False
        self.done_items = 0
        self.total_items = 0


def run(items, fn, horizon=20.0, nproc=None, chunk=8, budget_s=None, label=""):
    """items: list; fn(item) -> Result.  Deterministic order; SEED only rotates shard assignment."""
    global _worker_fn, _worker_horizon
    _worker_fn = fn
    _worker_horizon = horizon
    nproc = nproc or base.NPROC
    # calibration aids (never set by the registered commands): VSGMC_LIST_IDS=<file> appends the ids of the items and executes nothing;
    # VSGMC_SKIP_IDS=<file> leaves out the items listed there, so that a larger tier can be calibrated on what it adds to a smaller one
    lst = os.environ.get("VSGMC_LIST_IDS")
    if lst:
        with open(lst, "a") as f:
            for it in items:
                f.write(item_id(it) + "\n")
        items = []
    skp = os.environ.get("VSGMC_SKIP_IDS")
    if skp and os.path.exists(skp):
        have = set(open(skp).read().split("\n"))
        items = [it for it in items if item_id(it) not in have]
    indexed = list(enumerate(items))
    m = Merged()
    m.total_items = len(indexed)
    if not indexed:
        return m
    rot = base.SEED % max(1, len(indexed))
    order = indexed[rot:] + indexed[:rot]
    chunks = [order[i : i + chunk] for i in range(0, len(order), chunk)]
    t0 = time.time()
    last = t0

    def merge(res):
        for idx, r in res:
            m.evaluations += 1
            m.transitions += r.transitions
            m.effective += r.effective
            m.states |= r.states
            if r.nontrivial is not None:
                if isinstance(r.nontrivial, (set, list, tuple)):
                    m.nontrivial.update(r.nontrivial)
                else:
                    m.nontrivial.add(r.nontrivial)
            for v in r.violations:
                m.violation_count += 1
                k = v["key"]
                if k not in m.violations or idx < m.violations[k][0]:
                    m.violations[k] = (idx, v)
            for n in r.notes:
                if n[0] == "timeout":
                    m.timeouts.append(n[1])
                elif n[0] == "harness_exception":
                    m.harness_errors.append(n[1])
                else:
                    m.notes.append(n)
            if r.sample is not None and len(m.samples) < 5:
                m.samples.append(r.sample)
            for k, v in r.extra.items():
                if k == "wall":
                    m.extra["cpu_s"] = m.extra.get("cpu_s", 0.0) + v
                elif isinstance(v, (int, float)):
                    m.extra[k] = m.extra.get(k, 0) + v
                elif isinstance(v, set):
                    m.extra.setdefault(k, set()).update(v)
                elif isinstance(v, dict):
                    d = m.extra.setdefault(k, {})
                    for kk, vv in v.items():
                        d[kk] = d.get(kk, 0) + vv if isinstance(vv, (int, float)) else vv
                elif isinstance(v, list):
                    m.extra.setdefault(k, []).extend(v)

    if nproc == 1:
        for c in chunks:
            merge(_run_chunk(c))
            m.done_items += len(c)
            if budget_s and time.time() - t0 > budget_s:
                m.budget_cut = True
                break
    else:
        _own_pool(chunks, nproc, merge, m, t0, budget_s, label)
    return m


def _worker_loop(wid, chunks, task_q, res_q):
    while True:
        ci = task_q.get()
        if ci is None:
            break
        res_q.put(("start", wid, ci, None))
        try:
            res = _run_chunk(chunks[ci])
        except BaseException as e:  # noqa
            res_q.put(("error", wid, ci, f"{type(e).__name__}: {e}"))
            continue
        res_q.put(("done", wid, ci, res))


def _own_pool(chunks, nproc, merge, m, t0, budget_s, label):
    """Process pool that survives (and reports) the death of a worker: the parent knows which chunk every
    worker is on; a dead worker's chunk is re-run item by item in fresh single-item processes so that the
    item that kills the interpreter is identified."""
    import queue as _q

    ctx = multiprocessing.get_context("fork")
    task_q, res_q = ctx.Queue(), ctx.Queue()
    for ci in range(len(chunks)):
        task_q.put(ci)
    procs = {}
    for w in range(nproc):
        task_q.put(None)
    for w in range(nproc):
        p = ctx.Process(target=_worker_loop, args=(w, chunks, task_q, res_q), daemon=False)
        p.start()
        procs[w] = p
    current = {}
    done = 0
    last = t0
    retry = []
    while done < len(chunks):
        try:
            kind, wid, ci, payload = res_q.get(timeout=2.0)
        except _q.Empty:
            for w, p in list(procs.items()):
                if not p.is_alive() and w in current:
                    ci = current.pop(w)
                    retry.append(ci)
                    done += 1
                    np_ = ctx.Process(target=_worker_loop, args=(w, chunks, task_q, res_q), daemon=False)
                    task_q.put(None)
                    np_.start()
                    procs[w] = np_
            if budget_s and time.time() - t0 > budget_s:
                m.budget_cut = True
                break
            continue
        if kind == "start":
            current[wid] = ci
        elif kind == "done":
            current.pop(wid, None)
            merge(payload)
            m.done_items += len(payload)
            done += 1
        elif kind == "error":
            current.pop(wid, None)
            m.harness_errors.append(f"chunk {ci}: {payload}")
            done += 1
        now = time.time()
        if now - last > 30 and os.environ.get("VSGMC_PROGRESS"):
            last = now
            print(f"  [{label}] {m.done_items}/{m.total_items} {now - t0:.0f}s viol-keys={len(m.violations)}", file=sys.stderr, flush=True)
        if budget_s and now - t0 > budget_s:
            m.budget_cut = True
            break
    for p in procs.values():
        if p.is_alive():
            p.terminate()
    # chunks whose worker died: one fresh process per item
    for ci in retry:
        for idx, item in chunks[ci]:
            q2 = ctx.Queue()
            p = ctx.Process(target=lambda: q2.put(_run_chunk([(idx, item)])), daemon=True)
            p.start()
            p.join(_worker_horizon * 2 + 30)
            try:
                merge(q2.get(timeout=1.0))
                m.done_items += 1
            except Exception:  # noqa
                if p.is_alive():
                    p.terminate()
                r = Result()
                r.notes.append(("process_died", item_id(item)))
                m.died = getattr(m, "died", []) + [item]
                merge([(idx, r)])
                m.done_items += 1
