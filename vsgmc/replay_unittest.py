"""Plain unittest wrapper around replay artefacts: `python -m unittest vsgmc.replay_unittest` re-executes every
artefact under replays/ (or the files named in VSGMC_REPLAYS, colon-separated) without the explorer and fails
for each one that still reproduces."""
import glob
import importlib
import json
import os
import unittest

from . import base


class ReplayTests(unittest.TestCase):
    pass


def _make(path):
    def test(self):
        d = json.load(open(path))
        mod = importlib.import_module(f"vsgmc.props.{d['property'].lower()}")
        from . import explore

        keys = set(mod.reproduce(d["item"]))
        ctx = explore.context_of(d["item"])
        if ctx:
            keys |= {k + "|" + ctx[0] for k in keys}
        self.assertNotIn(d["key"], keys, f"{d['property']} violation reproduces: {d['key']}\n{json.dumps(d.get('detail'), default=str)[:1000]}")

    return test


_paths = os.environ.get("VSGMC_REPLAYS")
_paths = _paths.split(":") if _paths else sorted(glob.glob(os.path.join(base.VERIF, "replays", "*", "*.json")))
for _i, _p in enumerate(_paths):
    setattr(ReplayTests, f"test_{_i:03d}_{os.path.basename(os.path.dirname(_p))}_{os.path.basename(_p)[:-5]}", _make(_p))
