"""The normal form N of C01: erases exactly the redundant elements the structural rules are documented to
add or remove.  Input: list of (normalised value, role) of code tokens.  Output: list of values.
Each eraser is a separate function so that the kind of allowance a transition needed can be named."""

OPTIONAL_IS = {"token.process_statement.is_keyword", "token.block_statement.is_keyword", "token.component_declaration.is_keyword"}
COMPONENT_KW = {"token.instantiated_unit.component_keyword", "token.component_instantiation_statement.component_keyword"}
OPTIONAL_LABEL_COLON = {
    "token." + m + ".label_colon"
    for m in (
        "assertion_statement", "case_statement", "concurrent_assertion_statement", "concurrent_procedure_call_statement",
        "concurrent_signal_assignment_statement", "concurrent_conditional_signal_assignment", "concurrent_selected_signal_assignment",
        "concurrent_simple_signal_assignment", "exit_statement", "if_statement", "loop_statement", "next_statement", "null_statement",
        "procedure_call_statement", "process_statement", "report_statement", "return_statement", "signal_assignment_statement",
        "variable_assignment_statement", "wait_statement", "simple_waveform_assignment", "conditional_waveform_assignment", "selected_waveform_assignment",
        "simple_variable_assignment", "conditional_variable_assignment", "selected_variable_assignment", "simple_force_assignment", "simple_release_assignment",
        "selected_force_assignment", "conditional_force_assignment",
    )
}
# roles observed after an `end` keyword on the whole corpus (reviewed): unit keywords, names, labels
COND_OPEN = {"token.if_statement.if_keyword": "token.if_statement.then_keyword", "token.if_statement.elsif_keyword": "token.if_statement.then_keyword",
             "token.iteration_scheme.while_keyword": "token.loop_statement.loop_keyword"}
IDLIST_COMMA = "token.identifier_list.comma"


def drop_end(seq):
    """`end <unit keyword(s)> <name> ;`  ->  `end ;`"""
    out = []
    i = 0
    n = len(seq)
    while i < n:
        v, r = seq[i]
        out.append((v, r))
        i += 1
        if v == "end" and r.endswith(".end_keyword"):
            j = i
            while j < n and seq[j][0] != ";" and j - i < 5:
                j += 1
            if j < n and seq[j][0] == ";":
                i = j
    return out


def drop_is(seq):
    return [x for x in seq if x[1] not in OPTIONAL_IS]


def drop_component(seq):
    return [x for x in seq if x[1] not in COMPONENT_KW]


def drop_labels(seq):
    out = []
    for i, x in enumerate(seq):
        if x[1] in OPTIONAL_LABEL_COLON and x[0] == ":":
            if out:
                out.pop()  # the label itself
            continue
        out.append(x)
    return out


def drop_condition_parens(seq):
    """strip every balanced pair that encloses the whole condition of if/elsif..then and while..loop"""
    out = list(seq)
    i = 0
    while i < len(out):
        close_role = COND_OPEN.get(out[i][1])
        if close_role is None:
            i += 1
            continue
        while i + 1 < len(out) and out[i + 1][0] == "(":
            depth = 0
            j = i + 1
            while j < len(out):
                if out[j][0] == "(":
                    depth += 1
                elif out[j][0] == ")":
                    depth -= 1
                    if depth == 0:
                        break
                j += 1
            if j < len(out) - 1 and depth == 0 and out[j + 1][1] == close_role:
                del out[j]
                del out[i + 1]
            else:
                break
        i += 1
    return out


def expand_idlists(seq):
    """`[kw] a, b : rest TERM` -> `[kw] a : rest ; [kw] b : rest TERM`"""
    out = []
    i = 0
    n = len(seq)
    while i < n:
        # identifier followed by an identifier-list comma starts a list
        if i + 1 < n and seq[i + 1][1] == IDLIST_COMMA:
            ids = [seq[i]]
            j = i + 1
            while j + 1 < n and seq[j][1] == IDLIST_COMMA:
                ids.append(seq[j + 1])
                j += 2
            if j < n and seq[j][0] == ":":
                mod = ids[0][1].rsplit(".", 1)[0]
                # prefix keywords already emitted (same module, keyword roles)
                k = len(out)
                while k > 0 and out[k - 1][1].startswith(mod + ".") and out[k - 1][1].endswith("_keyword"):
                    k -= 1
                prefix = out[k:]
                del out[k:]
                depth = 0
                m = j
                while m < n:
                    v = seq[m][0]
                    if v == "(":
                        depth += 1
                    elif v == ")":
                        if depth == 0:
                            break
                        depth -= 1
                    elif v == ";" and depth == 0:
                        break
                    m += 1
                rest = seq[j:m]
                for q, idt in enumerate(ids):
                    if q:
                        out.append((";", "split"))
                    out.extend(prefix)
                    out.append(idt)
                    out.extend(rest)
                i = m
                continue
        out.append(seq[i])
        i += 1
    return out


ERASERS = (("end", drop_end), ("is", drop_is), ("component", drop_component), ("label", drop_labels), ("parens", drop_condition_parens), ("split", expand_idlists))


def N(seq, only=None):
    for name, f in ERASERS:
        if only is None or name in only:
            seq = f(seq)
    return [v for v, r in seq]


def allowance_needed(a, b):
    """a, b: (value, role) sequences with equal N.  Returns the smallest set of erasers that equates them
    (single erasers first), or None if they are already equal / 'all' if only the full N does."""
    va, vb = [v for v, r in a], [v for v, r in b]
    if va == vb:
        return None
    for name, f in ERASERS:
        if N(a, (name,)) == N(b, (name,)):
            return name
    names = [n for n, f in ERASERS]
    for i in range(len(names)):
        for j in range(i + 1, len(names)):
            if N(a, (names[i], names[j])) == N(b, (names[i], names[j])):
                return names[i] + "+" + names[j]
    return "all"
