"""C14 — exit status and every report format tell the same story.  All ordered file sets up to a size bound
over an 11-file alphabet x severity configurations x {gated, -ap, --fix} x output formats, with --json, --junit
and --quality_report requested in the same run of the real main(); every artefact is parsed back into
(file, rule, line, solution[, severity]) and compared with the ground set taken from the rule objects."""
import itertools
import json
import os
import re
import shutil
import time
import xml.etree.ElementTree as ET

from vsg import severity

from .. import base, drivers, explore, report
from . import common

PROP = "C14"

FILES = {
    "clean": ["", "entity clean is", "end entity clean;", ""],
    "phase1": ["", "entity p1 is", "end entity;", "", "architecture rtl of p1 is", "begin", "  process begin", "    null;", "  end process;", "end architecture rtl;", ""],
    "late": ["", "ENTITY late IS", "END ENTITY late;", ""],
    "warn": ["", "entity warn is", "end entity warn;", "", "-- " + "x" * 130, ""],
    "mixed": ["", "ENTITY mixed is", "end entity;", "", "-- " + "y" * 130, ""],
    "parsefail": ["entity pf is", "  port (", "end architecture;;", "architecture of is begin"],
    "empty": [""],
    "zerobyte": None,  # a file of zero bytes: reported by source_file_001 at line 0
    "tagged": ["", "-- vsg_off", "ENTITY tagged IS", "END ENTITY tagged;", "-- vsg_on", "", "entity  t2 is", "end entity t2;", ""],
    "perfile": ["", "ENTITY perfile IS", "END ENTITY perfile;", ""],
    # one rule reporting twice on one line with two different solutions (signal_004: one violation per identifier)
    "sameline": ["", "architecture rtl of sl is", "", "  signal SIG_A, SIG_B : std_logic;", "", "begin", "", "end architecture rtl;", ""],
}
SEVCFG = {
    "default": {},
    "rule_warning": {"rule": {"entity_004": {"severity": "Warning"}, "entity_008": {"severity": "Warning"}}},
    "user_error": {"severity": {"Todo": {"type": "error"}}, "rule": {"entity_004": {"severity": "Todo"}}},
    "user_warning": {"severity": {"Future": {"type": "warning"}}, "rule": {"entity_004": {"severity": "Future"}, "entity_008": {"severity": "Future"}, "entity_010": {"severity": "Future"},
                                                                              "entity_006": {"severity": "Future"}, "entity_014": {"severity": "Future"}}},
    "global_warning": {"rule": {"global": {"severity": "Warning"}}},
}
MODES = {"gated": [], "ap": ["-ap"], "fix": ["--fix"]}
FORMATS = ("vsg", "syntastic", "summary")


def setup_files(d, names):
    paths = []
    for i, n in enumerate(names):
        p = os.path.join(d, f"{i}_{n}.vhd")
        with open(p, "w") as f:
            if FILES[n] is not None:
                f.write("\n".join(FILES[n]) + "\n")
        paths.append(p)
    return paths


def ground_truth(path, cfgpath, mode):
    """the same file through the real apply_rules alone; the ground set is read off the rule objects"""
    argv = list(MODES[mode]) + ["-c", cfgpath]
    cla = drivers.parse_cla(["-f", path, "-p", "1"] + argv)
    import contextlib
    import io

    from vsg import apply_rules as _ar
    from vsg import config as _config
    from vsg import rule_list as _rl
    import types

    with contextlib.redirect_stdout(io.StringIO()):
        oConfig = _config.New(cla)
    holder = {}
    real = _rl.rule_list

    def factory(*a, **k):
        holder["rl"] = real(*a, **k)
        return holder["rl"]

    saved = _ar.rule_list
    _ar.rule_list = types.SimpleNamespace(rule_list=factory)
    try:
        with contextlib.redirect_stdout(io.StringIO()):
            res = _ar.apply_rules(cla, oConfig, (0, path))
    finally:
        _ar.rule_list = saved
    rows = []
    failed = "rl" not in holder or (res[4] and "Error while processing" in str(res[4]))
    if not failed:
        for r in holder["rl"].rules:
            for v in r.violations:
                rows.append((path, r.unique_id, int(v.get_line_number()), v.get_solution() or "None", r.severity.name, r.severity.type))
    return sorted(rows), failed


_ROW = re.compile(r"^  (\S+)\s+\| (.{10}) \|\s+(\d+) \| (.*)$")


def parse_vsg(so):
    rows, counts = [], {}
    cur = None
    totals = {}
    for ln in so.split("\n"):
        if ln.startswith("File:  "):
            cur = ln[7:]
            counts[cur] = {}
        m = _ROW.match(ln)
        if m and cur and m.group(1) != "Rule":
            rows.append((cur, m.group(1), int(m.group(3)), m.group(4), m.group(2).strip()))
        m2 = re.match(r"^Total Violations:\s+(\d+)", ln)
        if m2 and cur:
            totals[cur] = int(m2.group(1))
        m3 = re.match(r"^  (\S+)\s+:\s+(\d+)$", ln)
        if m3 and cur:
            counts[cur][m3.group(1)] = int(m3.group(2))
    return sorted(rows), totals, counts


_SYN = re.compile(r"^(ERROR|WARNING): (.*?)\((\d+)\)(\S+) -- (.*)$")


def parse_syntastic(so):
    rows = []
    for ln in so.split("\n"):
        m = _SYN.match(ln)
        if m:
            rows.append((m.group(2), m.group(4), int(m.group(3)), m.group(5), m.group(1)))
    return sorted(rows)


_SUM = re.compile(r"^File: (.*?) (OK|ERROR) \((\d+) rules checked\)(.*)$")


def parse_summary(text):
    out = {}
    for ln in text.split("\n"):
        m = _SUM.match(ln)
        if m:
            out[m.group(1)] = (m.group(2), {a: int(b) for a, b in re.findall(r"\[(\S+): (\d+)\]", m.group(4))})
    return out


def execute(item):
    r = explore.Result()
    d = os.path.join(drivers.scratch(), "c14")
    shutil.rmtree(d, ignore_errors=True)
    os.makedirs(d)
    names, sev, mode, fmt = item["files"], item["sev"], item["mode"], item["fmt"]
    paths = setup_files(d, names)
    cfg = json.loads(json.dumps(SEVCFG[sev]))
    for p, n in zip(paths, names):
        if n == "perfile":
            cfg.setdefault("file_rules", []).append({p: {"rule": {"entity_004": {"disable": True}}}})
    cfgpath = os.path.join(d, "cfg.json")
    with open(cfgpath, "w") as f:
        json.dump(cfg, f)
    J, X, Q = (os.path.join(d, n) for n in ("out.json", "out.xml", "out.quality.json"))
    argv = ["-f"] + paths + ["-p", "1", "-c", cfgpath, "-of", fmt, "--json", J, "--junit", X, "--quality_report", Q] + MODES[mode]
    st, so, se, exc = drivers.d_main(argv)
    r.transitions = 1
    strip = dict(item)
    if exc is not None:
        r.notes.append(("blocked_by", f"C19 exception:{exc[0]}@{exc[1]}"))
        return r
    # ground truth: each file alone on a pristine copy (the --fix run above rewrote the files: restore them first)
    paths2 = setup_files(d, names)
    G, failed = [], []
    for p in paths2:
        rows, bad = ground_truth(p, cfgpath, mode)
        G += rows
        if bad:
            failed.append(p)
    G.sort()
    g4 = sorted((a, b, c, e) for a, b, c, e, f, g in G)
    r.states.add(base.h64((g4, tuple(failed))))
    r.nontrivial = item["id"] if G else None

    def bad(kind, detail):
        r.violations.append({"key": (kind, fmt if kind.startswith(("stdout", "summary")) else "", sev, mode), "detail": detail, "item": strip})

    # exit status
    has_err = any(g[5] == severity.error_type for g in G)
    exp_status = 1 if (has_err or failed) else 0
    if (1 if st else 0) != exp_status:
        bad("exit_status_disagrees_with_reported_violations", {"status": st, "error_type_violations": sum(1 for g in G if g[5] == severity.error_type), "failed_files": len(failed)})
    # stdout format
    if fmt == "vsg":
        rows, totals, counts = parse_vsg(so)
        got = sorted((a, b, c, e) for a, b, c, e, f in rows)
        if got != g4:
            bad("stdout_rows_differ_from_violations", {"only_stdout": [x for x in got if x not in g4][:3], "only_ground": [x for x in g4 if x not in got][:3]})
        for p in paths2:
            n = sum(1 for g in G if g[0] == p)
            if p in totals and totals[p] != n:
                bad("stdout_total_differs_from_rows", {"file": p, "printed": totals[p], "rows": n})
            for sname, c in counts.get(p, {}).items():
                if c != sum(1 for g in G if g[0] == p and g[4] == sname):
                    bad("stdout_severity_count_differs_from_rows", {"file": p, "severity": sname, "printed": c})
    elif fmt == "syntastic":
        rows = parse_syntastic(so)
        got = sorted((a, b, c, e) for a, b, c, e, f in rows)
        if got != g4:
            bad("stdout_rows_differ_from_violations", {"only_stdout": [x for x in got if x not in g4][:3], "only_ground": [x for x in g4 if x not in got][:3]})
        for a, b, c, e, f in rows:
            typ = next((g[5] for g in G if (g[0], g[1], g[2], g[3]) == (a, b, c, e)), None)
            if typ and f != ("ERROR" if typ == severity.error_type else "WARNING"):
                bad("stdout_severity_word_differs_from_severity_type", {"row": (a, b, c), "word": f, "type": typ})
                break
    else:
        sm = parse_summary(so + "\n" + se)
        for p in paths2:
            if p in failed:
                continue
            if p not in sm:
                bad("summary_line_missing", {"file": p})
                continue
            word, cnt = sm[p]
            for sname, c in cnt.items():
                if c != sum(1 for g in G if g[0] == p and g[4] == sname):
                    bad("summary_count_differs_from_violations", {"file": p, "severity": sname, "printed": c})
            ferr = any(g[0] == p and g[5] == severity.error_type for g in G)
            if (word == "ERROR") != ferr:
                bad("summary_word_disagrees_with_error_type_violations", {"file": p, "word": word, "error_type_violations": ferr})
    # JSON
    try:
        dj = json.load(open(J))
        got = sorted((f["file_path"], v["rule"], int(v["linenumber"]), v["solution"] or "None") for f in dj["files"] for v in f["violations"])
        if got != g4:
            bad("json_differs_from_violations", {"only_json": [x for x in got if x not in g4][:3], "only_ground": [x for x in g4 if x not in got][:3]})
        order = [f.get("file_path") for f in dj["files"]]
        if order != paths2:
            bad("json_files_not_in_command_line_order", {"order": [os.path.basename(x or "?") for x in order]})
    except Exception as e:  # noqa
        bad("json_unreadable", {"error": f"{type(e).__name__}: {e}"})
    # JUnit: error-type violations only
    try:
        root = ET.parse(X).getroot()
        got = []
        nfail = 0
        for tc in root.iter("testcase"):
            for fl in tc.iter("failure"):
                nfail += 1
                for ln in (fl.text or "").split("\n"):
                    m = re.match(r"^\s*(\S+): (\d+) : (.*)$", ln)
                    if m:
                        got.append((tc.get("name"), m.group(1), int(m.group(2)), m.group(3)))
        exp = sorted((a, b, c, e) for a, b, c, e, f, g in G if g == severity.error_type)
        if sorted(got) != exp:
            bad("junit_differs_from_error_type_violations", {"only_junit": [x for x in sorted(got) if x not in exp][:3], "only_ground": [x for x in exp if x not in got][:3]})
        for ts in root.iter("testsuite"):
            if ts.get("failures") is not None and int(ts.get("failures")) != nfail:
                bad("junit_failures_attribute_differs_from_failure_elements", {"attribute": ts.get("failures"), "elements": nfail})
    except Exception as e:  # noqa
        bad("junit_unreadable", {"error": f"{type(e).__name__}: {e}"})
    # quality report
    try:
        dq = json.load(open(Q))
        got = sorted((e["location"]["path"], e["description"].split(" :: ")[0], int(e["location"]["lines"]["begin"]), e["description"].split(" :: ", 1)[1]) for e in dq)
        if got != g4:
            bad("quality_report_differs_from_violations", {"only_report": [x for x in got if x not in g4][:3], "only_ground": [x for x in g4 if x not in got][:3]})
    except Exception as e:  # noqa
        bad("quality_report_unreadable", {"error": f"{type(e).__name__}: {e}"})
    if G and len(names) == 2 and r.sample is None and names[0] == "mixed":
        r.sample = {"id": item["id"], "violations": len(G), "exit": st, "failed_files": len(failed)}
    return r


def reproduce(item):
    return {report.key_str(v["key"]) for v in execute(item).violations}


def items(tier):
    names = list(FILES)
    sets = [[a] for a in names] + [list(p) for p in itertools.product(names, repeat=2)]
    if tier != "quick":
        sets += [list(p) for p in itertools.product(names, repeat=3)]
    out = []
    for fs in sets:
        for sev in SEVCFG:
            for mode in MODES:
                for fmt in FORMATS:
                    if tier == "quick" and len(fs) == 2 and fmt != "vsg" and sev not in ("default", "user_error"):
                        continue
                    if tier != "quick" and len(fs) == 3 and (fmt != "vsg" or sev not in ("default", "rule_warning")):
                        continue
                    out.append({"id": f"{'+'.join(fs)}/{sev}/{mode}/{fmt}", "files": fs, "sev": sev, "mode": mode, "fmt": fmt})
    return out


def main(tier):
    t0 = time.time()
    its = items(tier)
    m = explore.run(its, execute, horizon=300.0, label=PROP, chunk=8)
    return report.finish(
        PROP, tier, "exploration", [m], t0,
        "ordered file sets of size 1-" + ("2" if tier == "quick" else "3") + " over the alphabet {clean, phase-1 errors, late-phase errors, warnings only, mixed, parse failure, empty, zero bytes, code-tagged, per-file configured, one rule twice on one line} "
        "x severity configurations {default, rule->Warning, rule->user-defined error type, rule->user-defined warning type, global Warning} x {gated, -ap, --fix} x {vsg, syntastic, summary}, each one run of "
        "the real main() with --json --junit --quality_report; each artefact parsed back and compared with the ground set (rule.violations of each file processed alone by the real apply_rules); "
        "counts against rows; exit status 0 iff no error-type violation and no file failed; non-trivial = runs with at least one violation",
        ["the stdin member of the designed alphabet is exercised by C15(c)", "for pairs in quick, the syntastic/summary formats are combined only with the default and user-error severity configurations"],
        extra_cov={"runs": m.evaluations, "distinct_ground_sets": len(m.states)},
        reproduce=reproduce,
        technique="bounded-exhaustive enumeration of file sets x severity configurations x modes x formats against the real CLI; projection consistency oracle",
    )
