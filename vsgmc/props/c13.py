"""C13 — phase gating, --all_phases, --fix_phase and skip_phase mean what they say (reference model of the
phase gate against the real apply_rules for every N, every skip set up to a bound, phase re-assignments and
severity flips)."""
import itertools
import time

from vsg import severity

from .. import base, corpus, drivers, explore, report, universe
from . import common

PROP = "C13"


def ground(ex):
    """list of (rule, line, solution, effective phase, is error type) from the rule objects of a finished run"""
    out = []
    for r in ex.rl.rules:
        for v in r.violations:
            out.append((r.unique_id, v.get_line_number(), v.get_solution() or "", r.phase, r.severity.type == severity.error_type))
    return sorted(out)


def merge_cfg(a, b):
    if not a:
        return b
    if not b:
        return a
    out = dict(a)
    for k, v in b.items():
        if k == "rule" and "rule" in out:
            rr = dict(out["rule"])
            for rk, rv in v.items():
                rr[rk] = dict(rr.get(rk, {}), **rv)
            out["rule"] = rr
        else:
            out[k] = v
    return out


class Phases(drivers.Monitor):
    """records, in a fix run, which rules had a fix/analyze call and the text at each phase boundary"""

    def __init__(self):
        self.called = set()
        self.boundary = {}  # N -> lines at the end of phase N (recorded when the first rule of a later phase starts)
        self.maxphase = 0

    def _enter(self, ex, rule):
        p = rule.phase
        if p > self.maxphase:
            for n in range(self.maxphase, p):
                if n >= 1 and n not in self.boundary:
                    self.boundary[n] = list(ex.snap.lines())
            self.maxphase = p

    def before_fix(self, ex, rule):
        if ex.stage == "fix":
            self._enter(ex, rule)
            self.called.add((rule.unique_id, rule.phase))

    def before_analyze(self, ex, rule, stage):
        if ex.stage == "fix" and stage != "fix":
            self._enter(ex, rule)
            self.called.add((rule.unique_id, rule.phase))

    def on_stage(self, ex, stage):
        if stage == "after_fix":
            for n in range(self.maxphase, 8):
                if n >= 1 and n not in self.boundary:
                    self.boundary[n] = list(ex.snap.lines())


class _KeepStart(drivers.Monitor):
    same = False

    def on_start(self, ex):
        self.v0 = list(ex.snap.vals)

    def on_end(self, ex):
        self.same = ex.snap is not None and list(ex.snap.vals) == self.v0


def execute(item):
    r = explore.Result()
    lines = universe.materialise(item)
    base_cfg = item.get("cfg")
    skip = item.get("skip", [])
    cfg = merge_cfg(base_cfg, {"skip_phase": skip}) if skip else base_cfg
    it = dict(item, lines=lines, cfg=cfg)
    strip = common.strip_item(item)
    kind = item["kind"]

    def blocked(ex):
        rr = common.to_result(ex, PROP)
        r.notes.extend(rr.notes)

    if kind == "gate":
        ap = drivers.d_pipe(it, [], fix=False, extra_argv=["-ap"])
        gt = drivers.d_pipe(it, [], fix=False)
        r.transitions = ap.transitions + gt.transitions
        if ap.outcome != "ok" or gt.outcome != "ok" or ap.rl is None or gt.rl is None:
            blocked(ap if ap.outcome != "ok" else gt)
            return r
        Vap, Vg = ground(ap), ground(gt)
        # a phase configured at rule level is the phase the rule runs in (the ground set reads the phase off the rule objects, so
        # that reading is checked against the configuration first)
        for rid, entry in ((base_cfg or {}).get("rule", {}) or {}).items():
            if isinstance(entry, dict) and "phase" in entry and rid not in ("global", "group"):
                for rule in ap.rl.rules:
                    if rule.unique_id == rid and rule.phase != entry["phase"]:
                        r.violations.append({"key": ("configured_phase_not_in_force", f"phase={entry['phase']}"), "detail": {"rule": rid, "configured": entry["phase"], "rule_runs_in": rule.phase}, "item": strip})
                        return r
        # a skipped phase contributes nothing, not even with -ap
        for v in Vap:
            if v[3] in skip:
                r.violations.append({"key": ("skipped_phase_reported", "all_phases"), "detail": {"violation": v}, "item": strip})
                return r
        err_phases = sorted({v[3] for v in Vap if v[4]})
        pstar = err_phases[0] if err_phases else 7
        model = [v for v in Vap if v[3] <= pstar]
        if Vg != model:
            extra = [v for v in Vg if v not in model][:2]
            missing = [v for v in model if v not in Vg][:2]
            r.violations.append({"key": ("gated_report_is_not_the_prefix_of_all_phases_report", "extra" if extra else "missing"), "detail": {"first_failing_phase": pstar, "extra": extra, "missing": missing, "skip": skip},
                                 "item": strip})
        # the phase announced in the report header
        last = gt.rl.lastPhaseRan
        exp_last = pstar if err_phases else max([p for p in range(1, 8) if p not in skip] or [0])
        if last != exp_last:
            r.violations.append({"key": ("reported_stop_phase_wrong", f"{last}!={exp_last}"), "detail": {"skip": skip}, "item": strip})
        if item.get("with_fix_run"):
            # a --fix run that fixes nothing (every reporting rule is a warning, or nothing is fixable) reports what the plain gated
            # check of the same text reports: same violations, same multiplicity, same stop phase
            keep = _KeepStart()
            fx = drivers.d_pipe(it, [keep])
            r.transitions += fx.transitions
            # (only if the model itself is untouched: the file-wide clean-up after phase 1 may normalise blank lines / trailing blanks in
            # the model without anything being written - what the report then says about such lines is C08's business, not the gate's)
            if fx.outcome == "ok" and fx.rl is not None and fx.effective == 0 and not fx.written and keep.same:
                Vf = ground(fx)
                if Vf != Vg or fx.rl.lastPhaseRan != last:
                    extra = [v for v in Vf if Vf.count(v) > Vg.count(v)][:2]
                    missing = [v for v in Vg if Vg.count(v) > Vf.count(v)][:2]
                    r.violations.append({"key": ("report_of_fix_run_that_fixed_nothing_differs_from_gated_check", "extra" if extra else "missing" if missing else "stop_phase"),
                                         "detail": {"extra": extra, "missing": missing, "stop_phase_fix_run": fx.rl.lastPhaseRan, "stop_phase_check": last}, "item": strip})
        r.states.add(base.h64((pstar, tuple(skip))))
        r.nontrivial = item["id"] if Vap else None
        if Vap and len(err_phases) > 1:
            r.sample = {"id": item["id"], "all_phases_violations": len(Vap), "error_phases": err_phases, "gated_violations": len(Vg), "skip": skip}
        return r

    # kind == "fixphase": unrestricted run (with phase-boundary recording) against --fix_phase N for every N
    mon = Phases()
    full = drivers.d_pipe(it, [mon])
    r.transitions = full.transitions
    if full.outcome != "ok" or full.rl is None:
        blocked(full)
        return r
    for (rid, p) in mon.called:
        if p in skip:
            r.violations.append({"key": ("rule_of_skipped_phase_ran_in_fix", str(p)), "detail": {"rule": rid, "skip": skip}, "item": strip})
            return r
    for N in item.get("Ns", range(1, 8)):
        m2 = Phases()
        ex = drivers.d_pipe(it, [m2], extra_argv=["--fix_phase", str(N)])
        r.transitions += ex.transitions
        if ex.outcome != "ok":
            blocked(ex)
            continue
        late = sorted((rid, p) for rid, p in m2.called if p > N or p in skip)
        if late:
            r.violations.append({"key": ("fix_phase_applied_rule_of_later_or_skipped_phase", f"N={N}"), "detail": {"rules": late[:3], "skip": skip}, "item": strip})
            break
        exp = mon.boundary.get(N)
        got = m2.boundary.get(N) or (list(ex.snap.lines()) if ex.snap else None)
        if exp is not None and got != exp:
            i = next((k for k in range(min(len(exp), len(got))) if exp[k] != got[k]), min(len(exp), len(got)))
            r.violations.append({"key": ("fix_phase_result_differs_from_first_N_phases_of_full_fix", f"N={N}"), "detail": {"line": i + 1, "full_run_at_boundary": exp[i] if i < len(exp) else None,
                                                                                                                   "fix_phase_run": got[i] if i < len(got) else None, "skip": skip}, "item": strip})
            break
        r.states.add(base.h64((N, tuple(skip), got)))
    r.nontrivial = item["id"] if full.effective else None
    if full.effective and len({p for _, p in mon.called}) > 3:
        r.sample = {"id": item["id"], "phases_with_rules_run": sorted({p for _, p in mon.called}), "skip": skip, "N": list(item.get("Ns", range(1, 8)))}
    return r


def reproduce(item):
    return {report.key_str(v["key"]) for v in execute(item).violations}


def skip_sets(maxsize):
    out = [[]]
    for k in range(1, maxsize + 1):
        out += [list(c) for c in itertools.combinations(range(1, 8), k)]
    return out


def items(tier):
    sq = [s for s in corpus.small_slice(max_lines=25)]
    sqset = set(sq)
    fixs = corpus.seed_ids(("fix",))
    smallest = sorted(sq, key=lambda s: (len(corpus.lines_of(s)), s))[:12]
    out = []
    seeds = sq if tier == "quick" else sorted(set(sq) | set(fixs[::2]) | set(corpus.seed_ids(("cls",))))
    for s in seeds:
        for st in universe.K0:
            out.append(universe.mk(s, (), st, None, kind="gate"))
        for sk in skip_sets(2 if s in sq else 1)[1:]:
            out.append(dict(universe.mk(s, (), None, None, kind="gate"), skip=sk, id=f"{s}#gate#skip{sk}"))
        out.append(universe.mk(s, (), None, None, kind="fixphase"))
        out[-1]["id"] += "#fixphase"
        if tier != "quick":
            out.append(dict(universe.mk(s, (), "jcl", None, kind="fixphase"), id=f"{s}%jcl#fixphase"))
        for sk in (skip_sets(1)[1:] if s in sq else []):
            out.append(dict(universe.mk(s, (), None, None, kind="fixphase"), skip=sk, id=f"{s}#fixphase#skip{sk}", Ns=[3, 7] if tier == "quick" else list(range(1, 8))))
    for s in smallest:
        for sk in skip_sets(7):
            if len(sk) > 2:
                out.append(dict(universe.mk(s, (), None, None, kind="gate"), skip=sk, id=f"{s}#gate#skip{sk}"))
                out.append(dict(universe.mk(s, (), None, None, kind="fixphase"), skip=sk, id=f"{s}#fixphase#skip{sk}", Ns=[7]))
    # phase re-assignment and severity flips of the rule a fixture is about
    from . import configs_k1

    inv = configs_k1.inventory()
    for s in (fixs if tier != "quick" else [x for x in sq if x.startswith("fix/")] + fixs[::9]):
        rid = corpus.rule_of_seed(s)
        if rid not in inv:
            continue
        en = {"disable": False} if inv[rid]["disable"] else {}
        for p in range(1, 8):
            if p != inv[rid]["phase"] and (tier != "quick" or p in (1, 4, 7)):
                out.append(dict(universe.mk(s, (), None, {"rule": {rid: dict(en, phase=p)}}, kind="gate"), id=f"{s}#gate#{rid}.phase={p}"))
                if tier != "quick" or p == 7:
                    out.append(dict(universe.mk(s, (), None, {"rule": {rid: dict(en, phase=p)}}, kind="fixphase"), id=f"{s}#fixphase#{rid}.phase={p}", Ns=[min(p, inv[rid]["phase"]), max(p, inv[rid]["phase"]) - 1 or 1]))
        out.append(dict(universe.mk(s, (), None, {"rule": {rid: dict(en, severity="Warning")}}, kind="gate"), id=f"{s}#gate#{rid}.severity=Warning", with_fix_run=True))
    # every rule demoted to a warning: --fix repairs nothing, its report is the gated report; and the plain configuration on every seed
    # (a --fix run that happens to change nothing)
    for s in seeds:
        out.append(dict(universe.mk(s, (), None, {"rule": {"global": {"severity": "Warning"}}}, kind="gate"), id=f"{s}#gate#global.severity=Warning", with_fix_run=True))
        out.append(dict(universe.mk(s, (), None, None, kind="gate"), id=f"{s}#gate#with_fix_run", with_fix_run=True))
    return out


def main(tier):
    t0 = time.time()
    its = items(tier)
    m = explore.run(its, execute, horizon=240.0, label=PROP)
    return report.finish(
        PROP, tier, "model_checking", [m], t0,
        "reference model: report = {v in all-phases report : phase(v) <= first non-skipped phase with an error-type violation}; --fix_phase N = the first N phase steps of the full fix. "
        "gate items run the real apply_rules with and without -ap and compare with the model (also the announced stop phase); fixphase items run the full --fix with the text recorded at every "
        "phase boundary and --fix_phase N for each N: no rule of a later or skipped phase may be applied and the text must equal the boundary text; skip sets: all of size <= 2 on every seed, "
        "all 128 on the 12 smallest; phase re-assignment and severity flips of each fixture's own rule; a --fix run that changes nothing (all rules warnings, or nothing fixable) must report exactly what the gated check reports; non-trivial = inputs with violations / effective fixes",
        ["ground truth = rule.violations of the rule objects the run used (phase and severity read after configuration)"],
        extra_cov={"bound": ("S_q (<=25 lines)" if tier == "quick" else "S_q, every second fixture and all classification seeds") + " x K0; N in 1..7; skip sets as stated"},
        reproduce=reproduce,
        technique="explicit enumeration of the phase-gate state space (N x skip set x phase assignment) on the real code against a reference model",
    )
