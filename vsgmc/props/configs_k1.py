"""K1: single-option configuration deviations (DESIGN §3.2).  Domains come from
specs/option_domains.json (transcribed from docs/configuring_*.rst); the rule inventory and defaults
come from the live tree (a fresh rule_list)."""
import json
import os

from .. import base, corpus, universe

GENERIC = ("indent_style", "indent_size", "phase", "disable", "fixable", "severity", "user_error_message")
_inv = None
_dom = None


def inventory():
    """rule id -> dict(option -> default), plus meta"""
    global _inv
    if _inv is None:
        from vsg import rule_list, vhdlFile

        o = vhdlFile.vhdlFile([""])
        rl = rule_list.rule_list(o, None)
        _inv = {}
        for r in rl.rules:
            if r.deprecated:
                continue
            _inv[r.unique_id] = {
                "options": {a: getattr(r, a) for a in r.configuration if a not in GENERIC},
                "disable": r.disable,
                "phase": r.phase,
                "fixable": r.fixable,
                "groups": list(r.groups),
                "configuration": list(r.configuration),
                "severity": r.severity.name,
            }
    return _inv


def domains():
    global _dom
    if _dom is None:
        p = os.path.join(base.VERIF, "specs", "option_domains.json")
        _dom = json.load(open(p)) if os.path.exists(p) else {}
    return _dom


def _norm(v):
    return json.dumps(v, sort_keys=True)


def values_for(rid, opt):
    """documented values of option `opt` for rule `rid` other than its default"""
    inv = inventory()[rid]
    default = inv["options"][opt]
    entries = domains().get(opt, [])
    chosen = None
    for e in entries:
        if rid in e.get("rules", ()):
            chosen = e
            break
    for e in entries if chosen is None else ():
        if "rules" in e:
            continue
        if any(_norm(default) == _norm(d) for d in e.get("applies_when_default_in", [])):
            chosen = e
            break
    if chosen is None and len(entries) == 1:
        chosen = entries[0]
    if chosen is None:
        return []
    return [v for v in chosen["values"] if _norm(v) != _norm(default)]


def deviations(rid, limit_values=None):
    """list of (cfgname, cfg dict) single-option deviations of rule rid"""
    inv = inventory()[rid]
    out = []
    for opt in inv["options"]:
        vals = values_for(rid, opt)
        if limit_values is not None:
            vals = vals[:limit_values]
        for v in vals:
            entry = {opt: v}
            if inv["disable"]:
                entry["disable"] = False
            out.append((f"{rid}.{opt}={_norm(v)}", {"rule": {rid: entry}}))
    return out


_WORD = None


def matching_list_values(rid, sid):
    """for the list-valued exception options: one entry that matches an identifier of the fixture (documented form: a word for
    case_exceptions, a leading / trailing fragment for prefix_exceptions / suffix_exceptions), so that the option is actually in play"""
    global _WORD
    import re

    if _WORD is None:
        _WORD = re.compile(r"[A-Za-z][A-Za-z0-9_]{3,}")
    inv = inventory()[rid]
    opts = [o for o in inv["options"] if o in ("case_exceptions", "prefix_exceptions", "suffix_exceptions")]
    if "patterns" in inv["options"]:
        # comment leaders (docs/configuring_whitespace_after_comment_rules.rst: any string starting with `--`, no length restriction;
        # the first matching pattern decides): a four-character leader taken from a comment of the fixture, listed before a
        # non-overlapping three-character one, so that both the length and the order of the list are in play
        en = {"disable": False} if inv["disable"] else {}
        for l in corpus.lines_of(sid):
            m = re.match(r"^\s*(--[^\s\-]{2})\S", l)
            if m:
                v = [m.group(1), "--|" if m.group(1).startswith("--!") else "--!"]  # a second, non-overlapping leader that sorts differently
                return [(f"{rid}.patterns~{_norm(v)}", {"rule": {rid: dict(en, patterns=v)}})]
        return []
    if not opts:
        return []
    words = []
    for l in corpus.lines_of(sid):
        for w in _WORD.findall(l.split("--")[0]):
            if w.lower() != w and w not in words:
                words.append(w)
    # prefer words whose stem ends in (starts with) a character of the fragment: the fragment must be cut off, not stripped
    def frag_ok(w, suffix):
        return (w[-3] in w[-2:]) if suffix else (w[2] in w[:2])
    out = []
    en = {"disable": False} if inv["disable"] else {}
    for o in opts:
        cand = sorted(words, key=lambda w: (not frag_ok(w, o == "suffix_exceptions"), words.index(w)))[:2]
        for w in cand:
            v = [w] if o == "case_exceptions" else ([w[:2]] if o == "prefix_exceptions" else [w[-2:]])
            out.append((f"{rid}.{o}~{_norm(v)}", {"rule": {rid: dict(en, **{o: v})}}))
    return out


def fixture_of(rid):
    name, num = rid.rsplit("_", 1)
    sid = f"fix/{name}/rule_{num}"
    return sid if sid in corpus.manifest()["by_id"] else None


def items_for_own_fixtures(limit_values=None, rules=None, enable_disabled=True, generic=None):
    """generic: None, or a stride n: every n-th rule also gets the generic-attribute deviations fixable:false, severity:Warning, disable:true"""
    out = []
    inv = inventory()
    for idx, rid in enumerate(sorted(inv)):
        if rules is not None and rid not in rules:
            continue
        sid = fixture_of(rid)
        if sid is None:
            continue
        if inv[rid]["disable"] and enable_disabled:
            out.append(universe.mk(sid, (), None, {"rule": {rid: {"disable": False}}}, cfgname=f"{rid}.disable=false"))
        for name, cfg in deviations(rid, limit_values):
            out.append(universe.mk(sid, (), None, cfg, cfgname=name))
        for name, cfg in matching_list_values(rid, sid):
            out.append(universe.mk(sid, (), None, cfg, cfgname=name))
        if generic and idx % generic == 0:
            en = {"disable": False} if inv[rid]["disable"] else {}
            out.append(universe.mk(sid, (), None, {"rule": {rid: dict(en, fixable=False)}}, cfgname=f"{rid}.fixable=false"))
            out.append(universe.mk(sid, (), None, {"rule": {rid: dict(en, severity="Warning")}}, cfgname=f"{rid}.severity=Warning"))
            out.append(universe.mk(sid, (), "jcl", {"rule": {rid: {"disable": True}}}, cfgname=f"{rid}.disable=true"))
    return out


def unknown_options():
    """options present on a live rule but absent from the table (self-test: the table must not rot)"""
    dom = domains()
    missing = set()
    for rid, inv in inventory().items():
        for opt in inv["options"]:
            if opt not in dom:
                missing.add(opt)
    return sorted(missing)
