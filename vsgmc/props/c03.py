"""C03 — each phase only makes the kind of change it is documented to make (per-transition class
predicate; the class comes from the docs icon line, never from the code)."""
import re
import time

from vsg import parser, severity

from .. import base, corpus, docspec, drivers, explore, layout, report, universe
from . import common, configs_k1

PROP = "C03"
_WS = (parser.whitespace, parser.carriage_return, parser.blank_line)
_SP = re.compile(r"\s+")


def nws(snap):
    out = []
    for t, v in zip(snap.toks, snap.vals):
        if isinstance(t, _WS) or v == "":
            continue
        if base.is_commentish(t):
            out.append(_SP.sub("", v))
        else:
            out.append(v)
    return out


def _first_diff(a, b):
    for i, (x, y) in enumerate(zip(a, b)):
        if x != y:
            return i, x, y
    return min(len(a), len(b)), (a[len(b)] if len(a) > len(b) else None), (b[len(a)] if len(b) > len(a) else None)


class Mon(drivers.Monitor):
    def __init__(self):
        self.spec = docspec.spec()
        self.fired = set()

    def before_fix(self, ex, rule):
        if rule.disable:
            ex.violation((rule.unique_id, "disabled_rule_fix_called"), {})

    def before_analyze(self, ex, rule, stage):
        if rule.disable:
            ex.violation((rule.unique_id, "disabled_rule_analyze_called"), {"stage": stage})

    def after_fix(self, ex, rule, before, after, changed):
        if not changed:
            return
        rid = rule.unique_id
        self.fired.add(rid)
        d = self.spec.get(rid)
        text_changed = not before.same_text(after)
        # never-change classes
        why = None
        if ex.kind == "analyze_only" or rule.severity.type != severity.error_type:
            why = "changed_but_severity_not_error"
        elif not rule.fixable:
            why = "changed_but_fixable_false"
        elif d is not None and d["unfixable"]:
            why = "changed_but_documented_unfixable"
        elif d is not None and d["group"] in ("naming", "length"):
            why = "changed_but_documented_" + d["group"]
        if why:
            if text_changed:
                i, x, y = _first_diff(before.lines(), after.lines())
                ex.violation((rid, why), {"line": i + 1, "before": x, "after": y})
            return
        if d is None:
            return  # undocumented (proposed) rule: outside the property
        g = d["group"]
        if g in docspec.LAYOUT_GROUPS:
            a, b = nws(before), nws(after)
            if a != b:
                i, x, y = _first_diff(a, b)
                ex.violation((rid, f"{g}_rule_changed_non_whitespace"), {"index": i, "before": x, "after": y})
        elif g == "case":
            if len(before.vals) != len(after.vals):
                ex.violation((rid, "case_rule_changed_token_count"), {"before": len(before.vals), "after": len(after.vals)})
                return
            for t0, v0, t1, v1 in zip(before.toks, before.vals, after.toks, after.vals):
                if v0 == v1:
                    continue
                if v0.lower() != v1.lower():
                    ex.violation((rid, "case_rule_changed_more_than_case"), {"before": v0, "after": v1})
                    return
                if base.is_exact_literal(t1) or base.is_exact_literal(t0) or base.is_commentish(t1):
                    ex.violation((rid, "case_rule_changed_literal_or_comment"), {"before": v0, "after": v1, "role": base.role(t1)})
                    return
            bl, al = before.lines(), after.lines()
            if len(bl) != len(al) or any(len(x) != len(y) for x, y in zip(bl, al)):
                ex.violation((rid, "case_rule_changed_line_length"), {})


    def on_end(self, ex):
        """write-back: a run in which only rules of the never-change classes (unfixable, fixable: false, non-error severity)
        found anything must not rewrite the file (inode and mtime are observed on the scratch file the real apply_rules ran on)"""
        if ex.violations or not ex.written or ex.rl is None:
            return
        had = [r for r in ex.rl.rules if getattr(r, "had_violations", False)]

        def never(r):
            d = self.spec.get(r.unique_id)
            return r.disable or not r.fixable or r.severity.type != severity.error_type or (d is not None and d["unfixable"])

        if all(never(r) for r in had):
            ex.violation(("<write_back>", "file_rewritten_although_only_never_change_rules_had_violations"), {"rules_flagged_had_violations": [r.unique_id for r in had][:8], "effective_rules": ex.effective_rules[:8]})


def execute(item):
    mon = Mon()
    ex = common.run_item(item, [mon], PROP)
    r = common.to_result(ex, PROP)
    r.nontrivial = {(rid, item.get("cfgname", "")) for rid in mon.fired} if mon.fired else None
    r.extra["fired_rules"] = set(mon.fired)
    if ex.effective:
        r.sample = {"id": item["id"], "effective_rules": ex.effective_rules[:8]}
    return r


KQ = ("NL", "CE", "J", "PPO")
KT = KQ + ('W3', 'UP')
FX = ("W0", "W3")  # operators applied on the rule-focused slice only


def items(tier):
    # + for every (quick: every third) rule on its own fixture: fixable:false, severity:Warning, disable:true (the never-change classes)
    return common.pipe_items(tier, KQ, KT, focus_extra=FX, k1=True) + [it for it in configs_k1.items_for_own_fixtures(limit_values=0, generic=3 if tier == "quick" else 1) if ".fixable=" in it["id"] or ".severity=" in it["id"] or ".disable=true" in it["id"]]


def reproduce(item):
    r = execute(item)
    return {report.key_str(v["key"]) for v in r.violations}


def main(tier):
    t0 = time.time()
    its = items(tier)
    m = explore.run(its, execute, horizon=60.0, label=PROP)
    fired = m.extra.get("fired_rules", set())
    spec = docspec.spec()
    extra = {
        "rules_documented": len(spec),
        "rules_observed_firing": len(fired),
        "undocumented_rules_fired": sorted(r for r in fired if r not in spec),
        "bound": common.bound_text(tier, KQ, KT, FX),
    }
    return report.finish(
        PROP,
        tier,
        "model_checking",
        [m],
        t0,
        "one execution = real apply_rules --fix on one variant under one configuration; every rule application inside is a monitored transition; "
        "non-trivial = distinct (rule, option-deviation) pairs observed changing the model",
        [
            "documented class of a rule = icon line in docs/*_rules.rst",
            "instance-level shadowing of Rule.fix/analyze observes every call rule_list.fix makes",
            "structure-group rules are unconstrained here (C01/C02)",
        ],
        extra_cov=extra,
        reproduce=reproduce,
        technique="explicit-state exploration of the fix pipeline with a per-transition class predicate",
    )
