"""C15 — a file's result does not depend on jobs, order, neighbours or input channel.
(a) histories in one process: graph of process-global state under apply_rules(file) edges (fingerprint of every
module/class-level container of vsg.* and of the shared config / argument objects) plus all concrete sequences
up to length 3 compared with solo results; (b) schedules: the Pool used by main() is replaced by a controlled
pool that executes a given assignment of tasks to forked workers - all assignments enumerated; the real Pool
runs as a conformance check; (c) by name vs --stdin."""
import contextlib
import functools
import io
import itertools
import json
import os
import pickle
import shutil
import sys
import time
import types

from vsg import __main__ as vmain
from vsg import apply_rules as _ar
from vsg import config as _config

from .. import base, corpus, drivers, explore, report, universe
from . import common

PROP = "C15"

ALPHA = {
    "clean": ["", "entity clean is", "end entity clean;", ""],
    "viol": ["", "ENTITY viol IS", "END ENTITY viol;", "", "-- " + "x" * 130, ""],
    "fixable": ["entity  E1   is", "  port (A : in std_logic;", "b : out std_logic);", "end entity e1;", "", "architecture   RTL of E1 is", "signal S : std_logic;", "begin", "b <= A;", "END ARCHITECTURE rtl;"],
    "parsefail": ["entity pf is", "  port (", "end architecture;;", "architecture of is begin"],
    "cfgerr": ["", "entity cfgerr is", "end entity cfgerr;", ""],
    "pragma": ["", "entity prag is", "end entity prag;", "", "architecture rtl of prag is", "begin", "  -- synthesis translate_off", "  a <= B  AND c;", "  -- synthesis translate_on", "  d <=  e;",
               "end architecture rtl;", ""],
    "tags": ["", "-- vsg_off entity_004", "ENTITY tags IS", "-- vsg_on", "END ENTITY tags;", ""],
    "lists": ["", "entity lists is", "  port (", "    CLK_in : in std_logic;", "    data : out std_logic", "  );", "end entity lists;", ""],
    "fixtarget": ["", "ENTITY  ft IS", "END   ENTITY ft;", ""],
    "opencmt": ["", "ENTITY oc IS", "END ENTITY oc;", "/* a delimited comment that is never closed", "   (the file ends inside it)"],
}


def make_dir(tag, file_list=False):
    d = os.path.join(drivers.scratch(), "c15_" + tag)
    shutil.rmtree(d, ignore_errors=True)
    os.makedirs(d)
    for n, lines in ALPHA.items():
        with open(os.path.join(d, n + ".vhd"), "w") as f:
            f.write("\n".join(lines) + "\n")
    cfg = {
        "rule": {"port_010": {"case": "upper", "case_exceptions": ["CLK_in"]}, "port_025": {"disable": False, "suffixes": ["_in", "_out"]}, "entity_012": {"case": "lower", "suffix_exceptions": ["_X"]}},
        "file_rules": [{os.path.join(d, "cfgerr.vhd"): {"rule": {"port_006": {"disable": True}}}}, {os.path.join(d, "lists.vhd"): {"rule": {"port_010": {"case_exceptions": ["data"]}}}}],
    }
    if file_list:
        # the per-file configuration of lists.vhd given through the file_list section (looked up by file name, whatever the position of
        # the file in the batch); an unrelated plain entry comes first so that list position and batch position differ
        cfg["file_rules"] = cfg["file_rules"][:1]
        cfg["file_list"] = [os.path.join(d, "clean.vhd"), {os.path.join(d, "lists.vhd"): {"rule": {"port_010": {"case_exceptions": ["data"]}}}}]
    cp = os.path.join(d, "cfg.json")
    with open(cp, "w") as f:
        json.dump(cfg, f)
    return d, cp


# ---------------------------------------------------------------- fingerprint of process-global state
def _deep(v, depth=0, seen=None):
    if seen is None:
        seen = set()
    if isinstance(v, (str, int, float, bool, type(None), bytes)):
        return repr(v)
    if id(v) in seen or depth > 6:
        return "<rec>"
    seen.add(id(v))
    if isinstance(v, dict):
        return "{" + ",".join(f"{_deep(k, depth + 1, seen)}:{_deep(x, depth + 1, seen)}" for k, x in v.items()) + "}"
    if isinstance(v, (list, tuple)):
        return "[" + ",".join(_deep(x, depth + 1, seen) for x in v) + "]"
    if isinstance(v, (set, frozenset)):
        return "{" + ",".join(sorted(_deep(x, depth + 1, seen) for x in v)) + "}"
    if isinstance(v, type) or callable(v) or isinstance(v, types.ModuleType):
        return getattr(v, "__qualname__", None) or getattr(v, "__name__", "?")
    if hasattr(v, "pattern") and hasattr(v, "flags"):
        return "re:" + v.pattern
    if hasattr(v, "__dict__") and type(v).__module__.startswith(("vsg", "argparse")):
        return type(v).__name__ + _deep(vars(v), depth + 1, seen)
    return type(v).__name__


def canon_global():
    out = {}
    for name, mod in list(sys.modules.items()):
        if not (name == "vsg" or name.startswith("vsg.")) or mod is None:
            continue
        for k, v in list(vars(mod).items()):
            if k.startswith("__"):
                continue
            if isinstance(v, (list, dict, set)):
                out[f"{name}.{k}"] = base.h64(_deep(v))
            elif isinstance(v, type) and v.__module__ == name:
                for ck, cv in list(vars(v).items()):
                    if isinstance(cv, (list, dict, set)) and not ck.startswith("__"):
                        out[f"{name}.{v.__name__}.{ck}"] = base.h64(_deep(cv))
            elif hasattr(v, "__dict__") and type(v).__module__.startswith("vsg") and not isinstance(v, (type, types.ModuleType)) and not callable(v):
                out[f"{name}.{k}<instance>"] = base.h64(_deep(v))
    return out


def norm(s, d):
    return None if s is None else str(s).replace(d, "<D>")


def one_apply(cla, oConfig, idx, path, d):
    so = io.StringIO()
    with contextlib.redirect_stdout(so):
        res = _ar.apply_rules(cla, oConfig, (idx, path))
    status, tc, je, out, err, stop = res
    with open(path, "rb") as f:
        data = f.read()
    junit = norm("\n".join(tc.build_junit()), d) if tc is not None else None
    return {"status": bool(status), "junit": junit, "json": norm(json.dumps(je, sort_keys=True), d), "stdout": norm(out, d), "stderr": norm(err, d), "stop": bool(stop),
            "printed": norm(so.getvalue(), d), "bytes": base.h64(data)}


_solo = {}


def exec_seq(item):
    """one history: the files of item['seq'] through the real apply_rules in this (forked) process, sharing the
    argument and configuration objects exactly as main() does"""
    r = explore.Result()
    d, cp = make_dir("seq", file_list=bool(item.get("file_list")))
    fix = item["fix"]
    paths = [os.path.join(d, n + ".vhd") for n in item["seq"]]
    cla = drivers.parse_cla(["-f"] + paths + ["-p", "1", "-c", cp, "--junit", os.path.join(d, "j.xml"), "--json", os.path.join(d, "j.json")] + (["--fix"] if fix else []))
    with contextlib.redirect_stdout(io.StringIO()):
        oConfig = _config.New(cla)
    fp0 = canon_global()
    cfg0 = base.h64(_deep(vars(oConfig)) + _deep(vars(cla)))
    strip = dict(item)
    seen_before = set()
    for i, (n, p) in enumerate(zip(item["seq"], paths)):
        if n in seen_before:
            # the same path twice in one history: restore the original content so that the solo result is the reference
            with open(p, "w") as f:
                f.write("\n".join(ALPHA[n]) + "\n")
        seen_before.add(n)
        res = one_apply(cla, oConfig, i, p, d)
        r.transitions += 1
        fp = canon_global()
        r.states.add(base.h64(sorted(fp.items())))
        if fp != fp0:
            ch = sorted(k for k in set(fp) | set(fp0) if fp.get(k) != fp0.get(k))
            r.violations.append({"key": ("process_global_state_changed_by_processing_a_file", n, ch[0].split("<")[0][:60]), "detail": {"changed": ch[:5]}, "item": strip})
            fp0 = fp
        cfg1 = base.h64(_deep(vars(oConfig)) + _deep(vars(cla)))
        if cfg1 != cfg0:
            r.violations.append({"key": ("shared_configuration_or_arguments_changed_by_processing_a_file", n), "detail": {}, "item": strip})
            cfg0 = cfg1
        if len(item["seq"]) == 1:
            r.extra["solo"] = {f"{n}/{int(fix)}" + ("/fl" if item.get("file_list") else ""): res}
        else:
            exp = _solo.get(f"{n}/{int(fix)}" + ("/fl" if item.get("file_list") else ""))
            if exp is not None and res != exp:
                diff = [k for k in exp if exp[k] != res[k]]
                r.violations.append({"key": ("result_differs_from_solo_result", diff[0], f"position={i}") + (("file_list",) if item.get("file_list") else ()), "detail": {"file": n, "after": item["seq"][:i], "field": diff[0], "solo": str(exp[diff[0]])[:200],
                                                                                                                   "here": str(res[diff[0]])[:200]}, "item": strip})
    r.nontrivial = item["id"]
    if len(item["seq"]) == 3 and item["seq"][0] == "parsefail" and r.sample is None:
        r.sample = {"id": item["id"], "history": item["seq"], "fix": fix, "global_containers_fingerprinted": len(fp0)}
    return r


# ---------------------------------------------------------------- (b) controlled pool
class ControlledPool:
    """stands in for multiprocessing.Pool inside vsg.__main__: imap() executes a GIVEN assignment of tasks to worker
    processes (each worker is a real fork that runs its tasks sequentially) and yields results in task order"""

    assignment = None  # list of lists of task indices

    def __init__(self, n):
        self.n = n

    def __enter__(self):
        return self

    def __exit__(self, *a):
        return False

    def imap(self, f, iterable):
        tasks = list(iterable)
        groups = ControlledPool.assignment
        assert sorted(i for g in groups for i in g) == list(range(len(tasks))), "assignment does not cover the tasks"
        assert len(groups) <= self.n
        results = {}
        for g in groups:
            rfd, wfd = os.pipe()
            pid = os.fork()
            if pid == 0:
                os.close(rfd)
                out = []
                try:
                    for i in g:
                        out.append((i, f(tasks[i])))
                    data = pickle.dumps(out)
                except BaseException as e:  # noqa
                    data = pickle.dumps([("exc", repr(e))])
                with os.fdopen(wfd, "wb") as w:
                    w.write(data)
                os._exit(0)
            os.close(wfd)
            with os.fdopen(rfd, "rb") as rd:
                data = rd.read()
            os.waitpid(pid, 0)
            for i, res in pickle.loads(data):
                if i == "exc":
                    raise RuntimeError("worker raised " + res)
                results[i] = res
        for i in range(len(tasks)):
            yield results[i]


def partitions(n, maxgroups):
    """all partitions of range(n) into at most maxgroups groups, groups index-ordered"""
    def rec(i, groups):
        if i == n:
            yield [list(g) for g in groups]
            return
        for g in groups:
            g.append(i)
            yield from rec(i + 1, groups)
            g.pop()
        if len(groups) < maxgroups:
            groups.append([i])
            yield from rec(i + 1, groups)
            groups.pop()

    yield from rec(0, [])


def run_main(d, cp, names, jobs, fix, pool=None, assignment=None):
    paths = [os.path.join(d, n + ".vhd") for n in names]
    for n, p in zip(names, paths):
        with open(p, "w") as f:
            f.write("\n".join(ALPHA[n]) + "\n")
    J, X = os.path.join(d, "o.json"), os.path.join(d, "o.xml")
    for p in (J, X):
        if os.path.exists(p):
            os.remove(p)
    argv = ["-f"] + paths + ["-p", str(jobs), "-c", cp, "--json", J, "--junit", X] + (["--fix"] if fix else [])
    saved = vmain.multiprocessing
    if pool is not None:
        ControlledPool.assignment = assignment
        vmain.multiprocessing = types.SimpleNamespace(Pool=pool)
    try:
        st, so, se, exc = drivers.d_main(argv)
    finally:
        vmain.multiprocessing = saved
    js = norm(open(J).read(), d) if os.path.exists(J) else None
    jx = open(X).read() if os.path.exists(X) else None
    if jx:
        import re

        jx = re.sub(r'(timestamp|hostname|time)="[^"]*"', r'\1=""', norm(jx, d))
    data = [base.h64(open(p, "rb").read()) for p in paths]
    return {"status": st, "stdout": norm(so, d), "stderr": norm(se, d), "exc": exc, "json": js, "junit": jx, "bytes": data}


def exec_sched(item):
    r = explore.Result()
    d, cp = make_dir("sched")
    names, fix = item["files"], item["fix"]
    ref = run_main(d, cp, names, 1, fix)
    r.transitions = 1
    strip = dict(item)
    for p in item["jobs"]:
        for asg in partitions(len(names), p):
            got = run_main(d, cp, names, max(2, p), fix, pool=ControlledPool, assignment=asg)
            r.transitions += 1
            r.states.add(base.h64((tuple(map(tuple, asg)), got["stdout"])))
            if got != ref:
                diff = [k for k in ref if ref[k] != got[k]]
                r.violations.append({"key": ("result_depends_on_task_to_worker_assignment", diff[0]), "detail": {"assignment": asg, "field": diff[0], "sequential": str(ref[diff[0]])[:300],
                                                                                                                 "pooled": str(got[diff[0]])[:300]}, "item": strip})
                return r
    # conformance of the controlled pool: the real Pool, free-running
    for p in item.get("real", ()):
        got = run_main(d, cp, names, p, fix)
        r.transitions += 1
        if got != ref:
            diff = [k for k in ref if ref[k] != got[k]]
            r.violations.append({"key": ("result_with_real_pool_differs_from_one_job", diff[0]), "detail": {"jobs": p, "field": diff[0], "sequential": str(ref[diff[0]])[:300], "pooled": str(got[diff[0]])[:300]}, "item": strip})
            return r
    # output order
    order = [n for n in names]
    pos = [ref["stdout"].find(os.path.join("<D>", n + ".vhd")) for n in order if n not in ("parsefail", "cfgerr")]
    r.nontrivial = item["id"]
    if len(names) == 3 and r.sample is None and names[0] == "fixable":
        r.sample = {"id": item["id"], "assignments_run": r.transitions - 1, "jobs": item["jobs"]}
    return r


# ---------------------------------------------------------------- (c) channel
def exec_channel(item):
    r = explore.Result()
    lines = universe.materialise(item)
    if item.get("ctrl"):
        # a control / separator character inside a comment: both channels must still see the same lines
        lines = list(lines)
        k = min(2, len(lines) - 1)
        lines.insert(k, "-- page" + item["ctrl"] + "break")
    d = drivers.scratch()
    p = os.path.join(d, "chan.vhd")
    text = "\n".join(lines) + "\n"
    with open(p, "w") as f:
        f.write(text)
    J1, J2 = os.path.join(d, "c1.json"), os.path.join(d, "c2.json")
    a = drivers.d_main(["-f", p, "-p", "1", "-ap", "--json", J1])
    b = drivers.d_main(["--stdin", "-ap", "--json", J2], stdin_text=text)
    r.transitions = 2
    if a[3] or b[3]:
        r.notes.append(("blocked_by", "C19 exception in main"))
        return r

    def rows(so):
        return sorted(l for l in so.split("\n") if " | " in l)

    ja = json.load(open(J1))["files"][0]["violations"] if os.path.exists(J1) else None
    jb = json.load(open(J2))["files"][0]["violations"] if os.path.exists(J2) else None
    what = None
    if a[0] != b[0]:
        what = "exit_status"
    elif rows(a[1]) != rows(b[1]):
        what = "violations"
    elif ja != jb:
        what = "json_entry"
    if what:
        r.violations.append({"key": ("result_by_name_differs_from_stdin", what), "detail": {"by_name": str(a[:2])[:300], "stdin": str(b[:2])[:300]}, "item": common.strip_item(item)})
    r.nontrivial = item["id"] if rows(a[1]) else None
    return r


def execute(item):
    return {"seq": exec_seq, "sched": exec_sched, "channel": exec_channel}[item["part"]](item)


FL_NAMES = ("lists", "clean", "viol")  # sub-alphabet for the histories in which lists.vhd is configured through the file_list section


def _solo_items():
    return [{"id": f"seq/{n}/{f}", "part": "seq", "seq": [n], "fix": f} for n in ALPHA for f in (False, True)] + \
        [{"id": f"seq/{n}/{f}/fl", "part": "seq", "seq": [n], "fix": f, "file_list": True} for n in FL_NAMES for f in (False, True)]


def reproduce(item):
    global _solo
    if item["part"] == "seq" and len(item["seq"]) > 1 and not _solo:
        solo = _solo_items()
        _solo = explore.run(solo, execute, horizon=120.0, label=PROP + "solo", chunk=1).extra.get("solo", {})
    return {report.key_str(v["key"]) for v in execute(item).violations}


def main(tier):
    global _solo
    t0 = time.time()
    names = list(ALPHA)
    # warm-up: lazily imported rule modules add entries but mutate none; the baseline fingerprint is taken after it
    d, cp = make_dir("warm")
    cla = drivers.parse_cla(["-f", os.path.join(d, "clean.vhd"), "-p", "1", "-c", cp, "--fix"])
    with contextlib.redirect_stdout(io.StringIO()):
        _ar.apply_rules(cla, _config.New(cla), (0, os.path.join(d, "clean.vhd")))
    solo = _solo_items()
    m0 = explore.run(solo, execute, horizon=120.0, label=PROP + "solo", chunk=1)
    _solo = m0.extra.get("solo", {})
    seqs = []
    for L in (2, 3):
        for s in itertools.product(names, repeat=L):
            for f in (False, True):
                if tier == "quick" and L == 3 and (f is False) and s[0] not in ("parsefail", "cfgerr", "lists", "fixable", "opencmt"):
                    continue
                seqs.append({"id": f"seq/{'+'.join(s)}/{f}", "part": "seq", "seq": list(s), "fix": f})
    for L in (2, 3):
        for sq in itertools.product(FL_NAMES, repeat=L):
            for f in (False, True):
                seqs.append({"id": f"seq/{'+'.join(sq)}/{f}/fl", "part": "seq", "seq": list(sq), "fix": f, "file_list": True})
    m1 = explore.run(seqs, execute, horizon=240.0, label=PROP + "seq", chunk=8)
    sched = []
    pool_files = ["fixable", "viol", "parsefail", "lists", "clean", "cfgerr"]
    nmax = 3 if tier == "quick" else 4
    for n in range(2, nmax + 1):
        for combo in itertools.permutations(pool_files[: (4 if tier == "quick" else 5)], n):
            for f in (True,) if tier == "quick" and n == 3 else (False, True):
                sched.append({"id": f"sched/{'+'.join(combo)}/{f}", "part": "sched", "files": list(combo), "fix": f, "jobs": [2, 3], "real": [2] if n == 2 else []})
    if tier != "quick":
        sched.append({"id": "sched/5", "part": "sched", "files": ["fixable", "viol", "parsefail", "lists", "clean"], "fix": True, "jobs": [2, 3], "real": [2, 4, 16]})
    m2 = explore.run(sched, execute, horizon=600.0, label=PROP + "sched", chunk=1)
    chan = [dict(it, part="channel") for it in universe.zero_dev(corpus.small_slice() if tier == "quick" else corpus.seed_ids(("fix", "cls", "gen")), styles=(None,))]
    for sid in [s for s in corpus.small_slice(max_lines=25) if s.startswith("fix/")][:: (8 if tier == "quick" else 1)]:
        for ch in ("\x0c", "\x0b", "\x1c", "\x1d", "\x1e", "\x85", "\u2028", "\u2029", "\t"):
            chan.append(dict(universe.mk(sid), part="channel", ctrl=ch, id=f"{sid}#ctrl{ord(ch):x}"))
    m3 = explore.run(chan, execute, horizon=60.0, label=PROP + "chan", chunk=8)
    return report.finish(
        PROP, tier, "model_checking", [m0, m1, m2, m3], t0,
        "(a) node = fingerprint of every module-level and class-level list/dict/set of every loaded vsg.* module, of module-level vsg instances and of the shared config / argument objects; edge = one real "
        "apply_rules.apply_rules(args, config, (i, file)) for file in a 10-file alphabet (clean, violations, fixable, parse failure, configuration error via file_rules, pragmas, code tags, list-valued options, "
        "fix target, file ending inside an unclosed delimited comment), with and without --fix, and over a 3-file sub-alphabet with the per-file configuration given through the file_list section (list order differs from batch order): every edge must be a self-loop, and all sequences of length <= 3 are executed concretely with every file's (report, JUnit, JSON entry, exit contribution, fixed "
        "bytes) compared with its solo result; (b) main() with multiprocessing.Pool replaced by a controlled pool: every partition of the task list into <= p index-ordered groups (p in 2, 3), every order of "
        "the files, each group a real forked worker; everything main() prints and writes must equal the one-job run; the real Pool runs free as conformance; (c) every seed by name and through --stdin, also with a control / separator character (FF, VT, FS, GS, RS, NEL, LS, PS, TAB) inside a comment; "
        "non-trivial = histories / schedules / seeds with violations",
        ["worker <-> task assignment is the only scheduling freedom main() has (workers share nothing but distinct files); two workers fixing the same path is not modelled",
         "timestamps and host name in JUnit are normalised; scratch directory names are normalised"],
        extra_cov={"histories": m0.evaluations + m1.evaluations, "schedules_run": m2.transitions, "channel_pairs": m3.evaluations},
        reproduce=reproduce,
        technique="explicit-state exploration of process-global state under apply_rules edges with closure check; exhaustive enumeration of task-to-worker assignments under a controlled pool",
    )
