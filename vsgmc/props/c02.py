"""C02 — comments, pragmas and preprocessor lines survive fixing verbatim (modulo the documented
whitespace normalisation), may only disappear through the allow-listed rules, never absorb code and are
never absorbed by code."""
import re
import time
from collections import Counter

from vsg import parser

from .. import base, docspec, drivers, explore, report
from . import common

PROP = "C02"
KQ = ("CE", "CO", "CO0", "CEG", "PPO")
KT = KQ + ('PGO', 'CEE')
FX = ("CDG",)  # operators applied on the rule-focused slice only

_WS = re.compile(r"\s+")
_WSRUN = re.compile(r"[ \t]+")


def coarse(v):
    return _WS.sub("", v)


def fine_equiv(x, y):
    """documented normalisation only: tab replacement / space runs, and one space inserted after the comment leader"""
    if x == y:
        return True
    a, b = _WSRUN.sub(" ", x), _WSRUN.sub(" ", y)
    if a == b:
        return True
    if a.startswith("--") and len(b) == len(a) + 1:
        for p in range(2, min(6, len(a)) + 1):
            if a[:p] + " " + a[p:] == b:
                return True
    return False


def comments_of(tokens, vals=None):
    """ordered texts of comments / pragmas / preprocessor lines; a delimited comment is one unit from its
    opening to its closing token (everything in between belongs to the comment)"""
    out = []
    it = zip(tokens, vals) if vals is not None else ((t, t.value) for t in tokens)
    cur = None
    for t, v in it:
        if cur is not None:
            cur.append("\n" if isinstance(t, parser.carriage_return) else v)
            if type(t).__module__ == "vsg.token.delimited_comment" and type(t).__name__ == "ending":
                out.append("".join(cur))
                cur = None
            continue
        if base.is_commentish(t):
            if type(t).__module__ == "vsg.token.delimited_comment" and type(t).__name__ == "beginning":
                cur = [v]
            elif isinstance(t, parser.preprocessor):
                out.append(v.lstrip(" \t"))  # the classifier folds the indentation of a directive line into its token: layout, not text
            else:
                out.append(v)
    if cur is not None:
        out.append("".join(cur))
    return out


def code_after_comment(tokens, vals):
    """a `--` comment must be the last thing on its line, otherwise whatever follows is absorbed when written"""
    n = len(tokens)
    for i, t in enumerate(tokens):
        if isinstance(t, parser.comment) and vals[i].startswith("--"):
            j = i + 1
            while j < n and isinstance(tokens[j], parser.whitespace):
                j += 1
            if j < n and not isinstance(tokens[j], parser.carriage_return):
                return vals[i], vals[i + 1 : j + 3]
    return None


def allowed_remover(rule):
    """rules whose documented purpose is to remove comments: returns 'trailing' (only comments at the end of a line of code:
    component port/generic clauses and port maps), 'any' (comments inside an aggregate being collapsed onto one line) or None"""
    for c in type(rule).__mro__:
        n = c.__name__
        if n == "remove_comments_from_end_of_lines_bounded_by_tokens":
            return "trailing"
        if n == "multiline_structure":
            v = getattr(rule, "assign_on_single_line", None)
            return "any" if v in ("yes", True) else None
    return None


def trailing_comments(snap):
    """coarse texts of the comments that stand at the end of a line holding code"""
    out = Counter()
    code_on_line = False
    for t, v in zip(snap.toks, snap.vals):
        if isinstance(t, parser.carriage_return):
            code_on_line = False
        elif base.is_code(t):
            code_on_line = True
        elif base.is_commentish(t) and code_on_line:
            out[coarse(v)] += 1
    return out


def classify(cb, ca):
    b, a = Counter(coarse(x) for x in cb), Counter(coarse(x) for x in ca)
    lost, gained = b - a, a - b
    if lost and not gained:
        return "comment_lost", list(lost)[:2]
    if gained and not lost:
        k = next(iter(gained))
        return ("comment_duplicated" if k in b else "comment_invented"), list(gained)[:2]
    if lost and gained:
        l, g = next(iter(lost)), next(iter(gained))
        if len(g) > len(l) and (g.startswith(l) or (l.endswith("*/") and g.startswith(l[:-2]))):
            return "comment_absorbed_text", [l, g]
        return "comment_text_changed", [l, g]
    if [coarse(x) for x in cb] != [coarse(x) for x in ca]:
        return "comments_reordered", []
    for x, y in zip(cb, ca):
        if not fine_equiv(x, y):
            return "comment_whitespace_changed_beyond_normalisation", [x, y]
    return None, []


class Mon(drivers.Monitor):
    def __init__(self):
        self.cur = None
        self.fired = set()
        self.removed_ok = Counter()
        self.initial = None
        self.absorbing = False

    def on_start(self, ex):
        self.cur = comments_of(ex.snap.toks, ex.snap.vals)
        self.initial = list(self.cur)

    def _check(self, ex, who, rule, after, before=None):
        if ex.violations:
            return  # the first violation of an execution names the culprit; later differences are its consequences
        ca = comments_of(after.toks, after.vals)
        cb = self.cur
        self.cur = ca
        bad = code_after_comment(after.toks, after.vals)
        if bad and not self.absorbing:
            self.absorbing = True
            ex.violation((who, "code_left_on_the_line_of_a_comment"), {"comment": bad[0], "followed_by": bad[1]})
        if ca == cb:
            return
        kind, what = classify(cb, ca)
        if kind is None:
            return
        mode = allowed_remover(rule) if rule is not None else None
        if kind == "comment_lost" and mode:
            # must be a pure deletion: the survivors keep their order
            it = iter(cb)
            if all(any(x == y for y in it) for x in ca):
                gone = Counter(coarse(x) for x in cb) - Counter(coarse(x) for x in ca)
                if mode == "trailing" and before is not None:
                    tr = trailing_comments(before)
                    own = [v for v, n in gone.items() if n > tr.get(v, 0)]
                    if own:
                        ex.violation((who, "own_line_comment_removed_by_trailing_comment_rule"), {"comments": own[:2]})
                        return
                self.removed_ok.update(gone)
                self.fired.add(who)
                return
        ex.violation((who, kind), {"comments": what})

    def after_fix(self, ex, rule, before, after, changed):
        if changed:
            self._check(ex, rule.unique_id, rule, after, before)

    def on_system(self, ex, name, before, after, changed):
        if changed:
            self._check(ex, "<" + name + ">", None, after)

    def on_end(self, ex):
        if ex.final_lines is None or (ex.rl is not None and not ex.rl.had_violations):
            return
        try:
            o = base.parse(ex.final_lines)
        except Exception:  # noqa
            ex.notes.append(("blocked_by", "C08 output_rejected"))
            return
        written = comments_of(o.lAllObjects)
        model = comments_of(ex.snap.toks, ex.snap.vals)
        kind, what = classify(model, written) if written != model else (None, [])
        if kind is not None and not self.absorbing:
            ex.violation(("whole_run", "written_" + kind, ex.effective_rules[-1] if ex.effective_rules else "?"), {"comments": what})
        # code never absorbs a comment / comment never absorbs code: the code tokens of the written text are those of the model
        if base.code_values(o.lAllObjects) != [(v if base.is_exact_literal(t) else v.lower()) for t, v in zip(ex.snap.toks, ex.snap.vals) if base.is_code(t)]:
            if kind is None and not self.absorbing:
                ex.violation(("whole_run", "written_code_tokens_differ_from_model"), {})


def execute(item):
    mon = Mon()
    ex = common.run_item(item, [mon], PROP)
    r = common.to_result(ex, PROP)
    r.notes += ex.notes
    ncom = len(mon.initial or ())
    r.nontrivial = item["id"] if (ncom and ex.effective) else None
    r.extra["comments_tracked"] = ncom
    r.extra["allowed_removals"] = sum(mon.removed_ok.values())
    if ncom and ex.effective:
        r.sample = {"id": item["id"], "comments_tracked": ncom, "effective_transitions": ex.effective}
    return r


def reproduce(item):
    return {report.key_str(v["key"]) for v in execute(item).violations}


LINE_RULE_BASES = ("remove_carriage_return_after_token", "remove_carriage_returns_between_token_pairs", "move_token", "move_token_next_to_another_token",
                   "move_token_next_to_another_token_if_it_exists_between_tokens", "move_token_left_to_next_non_whitespace_token", "move_token_right_to_next_non_whitespace_token",
                   "move_token_sequences_left_of_token", "move_token_to_the_right_of_several_possible_tokens_if_it_exists_between_tokens", "multiline_structure",
                   "multiline_simple_structure", "multiline_constraint_structure", "multiline_procedure_call_structure", "multiline_subprogram_specification_structure",
                   "remove_comments_from_end_of_lines_bounded_by_tokens", "remove_lines_starting_with_token_between_token_pairs")


def main(tier):
    t0 = time.time()
    from . import configs_k1
    from vsg import rule_list, vhdlFile

    rl = rule_list.rule_list(vhdlFile.vhdlFile([""]), None)
    k1r = {r.unique_id for r in rl.rules if not r.deprecated and (r.name == "comment" or any(c.__name__ in LINE_RULE_BASES for c in type(r).__mro__))}
    its = common.pipe_items(tier, KQ, KT, focus_extra=FX, k1=True, k1_rules=k1r)
    m = explore.run(its, execute, horizon=90.0, label=PROP)
    return report.finish(
        PROP, tier, "model_checking", [m], t0,
        "one execution = real apply_rules --fix on a variant (operators CE/CEE/CO/CD put a numbered comment at every whitespace gap, line end and line boundary); after every "
        "effective transition the ordered list of comment/pragma/preprocessor texts (documented normalisation applied) must be unchanged unless an allow-listed remover deleted entries; "
        "at the end the written text is re-read and its comments and code tokens compared with the final model; non-trivial = executions with >=1 comment and >=1 effective transition",
        ["allow-list = rules derived from remove_comments_from_end_of_lines_bounded_by_tokens, and from multiline_structure while assign_on_single_line is 'yes'",
         "normalisation = whitespace directly after the comment leader and tab/space runs inside the comment"],
        extra_cov={"comments_tracked": m.extra.get("comments_tracked", 0), "allowed_removals_seen": m.extra.get("allowed_removals", 0), "k1_rules": len(k1r),
                   "bound": common.bound_text(tier, KQ, KT, FX)},
        reproduce=reproduce,
        technique="explicit-state exploration of the fix pipeline over all single comment placements; per-transition comment-sequence invariant",
    )
