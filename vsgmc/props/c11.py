"""C11 — code tags suppress exactly the tagged rules on exactly the tagged lines.
(1) the tag state machine, exhaustively: every sequence of tag events up to a depth, real suppression against a
reference model written from docs/code_tags.rst; (2) every placement of an off/on pair and of a next-line tag
on real seeds, V(tagged) against the reference-model filter of V(neutral comments); fix behaviour likewise."""
import itertools
import time

from .. import base, corpus, drivers, explore, report, universe
from . import common

PROP = "C11"
A, B = "logical_operator_500", "concurrent_002"
CODE = "  a <=  b AND c;"
EVENTS = {
    "off": "-- vsg_off",
    "off_a": f"-- vsg_off {A}",
    "off_b": f"-- vsg_off {B}",
    "off_ab": f"-- vsg_off {A} {B}",
    "on": "-- vsg_on",
    "on_a": f"-- vsg_on {A}",
    "on_b": f"-- vsg_on {B}",
    "next_a": f"-- vsg_disable_next_line {A}",
    "next_b": f"-- vsg_disable_next_line {B}",
    "next_ab": f"-- vsg_disable_next_line {A} {B}",
    "plain": "-- an ordinary comment",
    "code": None,
    "off_a_remark": f"-- vsg_off {A} : because {B} vsg_on",
    "on_remark": "-- vsg_on : done",
}
ALL = "ALL"


# ---------------------------------------------------------------- reference model (docs/code_tags.rst only)
class Model:
    def __init__(self):
        self.all = False
        self.off = set()
        self.pending = set()
        self.unspecified = False

    def tag(self, text):
        """feed one own-line comment; returns True if it is a tag"""
        body = text.split(":")[0].split()
        if len(body) < 2 or body[0] != "--":
            return False
        kw, ids = body[1], body[2:]
        if kw == "vsg_off":
            if not ids:
                self.all = True
                self.off = set()
            else:
                self.off |= set(ids)
            return True
        if kw == "vsg_on":
            if not ids:
                self.all = False
                self.off = set()
            else:
                if self.all:
                    self.unspecified = True  # the document does not define `vsg_on x` while everything is off
                self.off -= set(ids)
            return True
        if kw == "vsg_disable_next_line":
            if not ids:
                self.unspecified = True
            self.pending |= set(ids)
            return "next"
        return False

    def line(self):
        """suppressed set for a non-tag line; consumes the pending next-line set"""
        s = ALL if self.all else frozenset(self.off | self.pending)
        self.pending = set()
        return s


def model_for_lines(lines):
    """line number (1-based) -> suppressed set / ALL, or None where the document leaves it open"""
    m = Model()
    out = {}
    for i, ln in enumerate(lines):
        s = ln.strip()
        t = False
        if s.startswith("--"):
            t = m.tag(s)
        if t == "next":
            out[i + 1] = None
            continue
        if t:
            if m.pending:
                m.unspecified = True  # a next-line tag followed by an off/on tag
            out[i + 1] = None
            continue
        out[i + 1] = None if m.unspecified else m.line()
        if m.unspecified:
            m.pending = set()
    return out


def suppressed(s, rid):
    return s == ALL or rid in s


def report_of(lines, item, argv=("-ap",), fix=False):
    it = dict(item, lines=lines)
    it.pop("ops", None)
    ex = drivers.d_pipe(it, [], fix=fix, extra_argv=list(argv))
    return ex


def vset(ex):
    out = []
    for r in ex.rl.rules:
        for v in r.violations:
            try:
                toks = [t for t in v.oTokens.get_tokens()]
            except Exception:  # noqa
                toks = []
            out.append((r.unique_id, v.get_line_number(), v.get_solution() or "", v))
    return out


def span_of(ex, v):
    """lines covered by the violation's token slice (in the file the run analysed)"""
    o = v.oTokens
    start = getattr(o, "iStartIndex", None)
    if start is None:
        return None
    toks = [t for t in o.lTokens if type(t).__name__ != "beginning_of_file"]
    tab = base.line_table(ex.oFile.lAllObjects)
    if start >= len(tab):
        return None
    end = min(len(tab) - 1, start + max(0, len(toks) - 1))
    return set(range(tab[start], tab[end] + 1))


# ---------------------------------------------------------------- (1) state machine
def exec_seq(item):
    r = explore.Result()
    evs = item["events"]
    lines = ["architecture rtl of e is", "", "begin", ""]
    for e in evs:
        if EVENTS[e] is None:
            lines.append(CODE)
        else:
            lines.append("  " + EVENTS[e])
    lines += [CODE, "", "end architecture rtl;"]
    mdl = model_for_lines(lines)
    ex = report_of(lines, item)
    r.transitions = 1
    if ex.outcome != "ok" or ex.rl is None:
        r.notes += common.to_result(ex, PROP).notes
        return r
    got = {(rid, ln) for rid, ln, sol, v in vset(ex) if rid in (A, B)}
    r.states.add(base.h64(sorted(got)))
    for i, ln in enumerate(lines):
        if ln != CODE:
            continue
        s = mdl[i + 1]
        if s is None:
            r.extra["unspecified_lines"] = r.extra.get("unspecified_lines", 0) + 1
            continue
        for rid in (A, B):
            exp = not suppressed(s, rid)
            if ((rid, i + 1) in got) != exp:
                hist = [e for e in evs]
                r.violations.append({"key": ("tag_machine", "rule_reported_though_suppressed" if not exp else "rule_silent_though_not_suppressed", "a" if rid == A else "b"),
                                     "detail": {"events": hist, "line": i + 1, "model": ALL if s == ALL else sorted(s), "text": lines}, "item": item})
                return r
    r.nontrivial = item["id"]
    if len(evs) == 4 and evs[0] == "off_a" and evs[2] == "next_b":
        r.sample = {"events": evs, "reported": sorted(got)}
    return r


# ---------------------------------------------------------------- (2) placements on real seeds
def neutral(tag):
    return "-- " + "x" * (len(tag) - 3)


def exec_place(item):
    r = explore.Result()
    src = corpus.lines_of(item["seed"])
    tags = item["tags"]  # list of (insert-before-line index (0-based), text)
    tagged, plain = list(src), list(src)
    for pos, text in sorted(tags, key=lambda t: t[0], reverse=True):
        indent = "  "
        tagged.insert(pos, indent + text)
        plain.insert(pos, indent + neutral(text))
    mdl = model_for_lines(tagged)
    exn = report_of(plain, item)
    ext = report_of(tagged, item)
    r.transitions = 2
    if exn.outcome != "ok" or ext.outcome != "ok" or exn.rl is None or ext.rl is None:
        r.notes += common.to_result(exn if exn.outcome != "ok" else ext, PROP).notes
        return r
    Vn, Vt = vset(exn), vset(ext)
    strip = dict(item)
    exp, open_ = set(), set()
    for rid, ln, sol, v in Vn:
        sp = span_of(exn, v)
        if sp is None:
            open_.add((rid, ln, sol))
            continue
        st = [mdl.get(l) for l in sp]
        if any(x is None for x in st):
            open_.add((rid, ln, sol))  # the span covers a tag line or a line on which the document is silent
            continue
        flags = [suppressed(x, rid) for x in st]
        if not any(flags):
            exp.add((rid, ln, sol))
        elif not all(flags):
            open_.add((rid, ln, sol))  # straddles a tag boundary: unconstrained
    got = {(rid, ln, sol) for rid, ln, sol, v in Vt}
    r.states.add(base.h64(sorted(got)))
    # a violation REPORTED on a line where the model has the rule switched off must not appear, whatever its token span
    for rid, ln, sol in sorted(got):
        s = mdl.get(ln)
        if s is not None and suppressed(s, rid) and not r.violations:
            r.violations.append({"key": ("placement", "tagged_rule_reported_on_tagged_line", item["shape"], rid), "detail": {"violation": [rid, ln, sol], "tags": tags}, "item": strip})
    missing = sorted(exp - got)
    extra = sorted(got - exp - open_)
    # violations that only exist because the comment is a tag (e.g. comment rules on the tag line itself) are about the tag line: not constrained
    extra = [e for e in extra if mdl.get(e[1]) is not None]
    if missing:
        r.violations.append({"key": ("placement", "violation_outside_tagged_lines_not_reported", item["shape"]), "detail": {"missing": missing[:3], "tags": tags}, "item": strip})
    elif extra:
        # reported in the tagged file but not predicted: either suppressed-by-model yet reported, or new
        e = extra[0]
        s = mdl.get(e[1])
        kind = "tagged_rule_reported_on_tagged_line" if (s is not None and suppressed(s, e[0])) else "violation_appears_only_with_tags"
        r.violations.append({"key": ("placement", kind, item["shape"]), "detail": {"extra": extra[:3], "tags": tags}, "item": strip})
    r.nontrivial = item["id"] if Vn else None
    if item.get("fixcheck") and not r.violations:
        fxn = report_of(plain, item, argv=(), fix=True)
        fxt = report_of(tagged, item, argv=(), fix=True)
        r.transitions += 2
        if fxn.outcome == "ok" and fxt.outcome == "ok" and fxn.final_lines and fxt.final_lines:
            if item["shape"] == "wrap_all":
                want = [l.rstrip() for l in tagged]
                if fxt.final_lines != want and fxt.final_lines != tagged:
                    i = next((k for k in range(min(len(want), len(fxt.final_lines))) if want[k] != fxt.final_lines[k]), 0)
                    r.violations.append({"key": ("placement", "file_wrapped_in_vsg_off_was_changed", ""), "detail": {"line": i + 1, "got": fxt.final_lines[i] if i < len(fxt.final_lines) else None,
                                                                                                                   "rules": fxt.effective_rules[:4]}, "item": strip})
    if Vn and item["shape"] in ("pair_bare", "next") and r.sample is None and tags[0][0] == 3:
        r.sample = {"id": item["id"], "violations_neutral": len(Vn), "violations_tagged": len(Vt), "expected": len(exp), "unconstrained": len(open_)}
    return r


def exec_wrapfix(item):
    """a rule switched off for the whole file by tags fixes nothing: checked for every rule that fixes anything on the seed
    (including rules that only fire on what earlier rules inserted).  (A text comparison with "rule disabled by configuration"
    would be unsound: a tagged-off rule is still analysed, a disabled one is not, and library_009's analysis writes indent levels.)"""
    r = explore.Result()
    src = corpus.lines_of(item["seed"])
    base_run = report_of(src, item, argv=(), fix=True)
    r.transitions = 1
    if base_run.outcome != "ok" or base_run.rl is None:
        r.notes += common.to_result(base_run, PROP).notes
        return r
    rules = sorted(set(base_run.effective_rules))
    n = len(src)

    def strip(lines):
        return [l for l in lines if not l.strip().startswith(("-- vsg_o", "-- xxx"))]

    for rid in rules:
        off, on = f"-- vsg_off {rid}", f"-- vsg_on {rid}"
        tagged = ["  " + off] + list(src) + ["  " + on]
        a = report_of(tagged, item, argv=(), fix=True)
        r.transitions += 1
        if a.outcome != "ok":
            continue
        if rid in a.effective_rules:
            r.violations.append({"key": ("wrapfix", "rule_switched_off_by_tags_for_the_whole_file_still_fixed", rid), "detail": {"rule": rid}, "item": dict(item)})
            return r
    r.nontrivial = item["id"] if rules else None
    if rules and item["seed"].endswith("rule_018"):
        r.sample = {"id": item["id"], "rules_compared": rules[:8]}
    return r


def execute(item):
    if "events" in item:
        return exec_seq(item)
    if item.get("shape") == "wrapfix":
        return exec_wrapfix(item)
    return exec_place(item)


def reproduce(item):
    return {report.key_str(v["key"]) for v in execute(item).violations}


def seq_items(depth):
    names = list(EVENTS)
    out = []
    for n in range(1, depth + 1):
        for evs in itertools.product(names, repeat=n):
            out.append({"id": "seq/" + ",".join(evs), "events": list(evs), "style": None, "cfg": None})
    return out


def place_items(tier):
    out = []
    seeds = corpus.small_slice(max_lines=25)
    if tier != "quick":
        seeds = sorted(set(seeds) | {s for s in corpus.seed_ids(("fix",)) if len(corpus.lines_of(s)) <= 15})
    if tier == "quick":
        seeds = [s for s in seeds if s.startswith("fix/")] + [s for s in seeds if s.startswith("gen/")][::3]
    from .. import layout

    fixs = corpus.seed_ids(("fix",))
    for s in (fixs[::9] if tier == "quick" else fixs) + [x for x in corpus.small_slice() if x.startswith("gen/")]:
        out.append({"id": f"{s}#wrapfix", "seed": s, "style": None, "cfg": None, "shape": "wrapfix"})
    for s in seeds:
        si = universe.seedinfo(s)
        n = len(si.lines)
        # line boundaries where an own-line comment may be inserted (same admissibility as the CO operator), as insert positions
        pos = [0] + [i + 1 for i in sorted(si.bound) if si.bound[i]["insert"]] + [n]
        pos = sorted(set(pos))
        out.append({"id": f"{s}#wrap", "seed": s, "style": None, "cfg": None, "tags": [[0, "-- vsg_off"], [n, "-- vsg_on"]], "shape": "wrap_all", "fixcheck": True})
        for i, j in itertools.combinations(pos, 2):
            if (j - i) > (3 if tier == "quick" else 4):
                continue
            out.append({"id": f"{s}#off@{i}-on@{j}", "seed": s, "style": None, "cfg": None, "tags": [[i, "-- vsg_off"], [j, "-- vsg_on"]], "shape": "pair_bare"})
        rid = corpus.rule_of_seed(s)
        ids = [rid] if rid else []
        for i in pos:
            for r1 in ids:
                out.append({"id": f"{s}#next:{r1}@{i}", "seed": s, "style": None, "cfg": None, "tags": [[i, f"-- vsg_disable_next_line {r1}"]], "shape": "next"})
        for r1 in ids:
            for i, j in itertools.combinations(pos, 2):
                if (j - i) > (3 if tier == "quick" else 4):
                    continue
                out.append({"id": f"{s}#off:{r1}@{i}-on@{j}", "seed": s, "style": None, "cfg": None, "tags": [[i, f"-- vsg_off {r1}"], [j, f"-- vsg_on {r1}"]], "shape": "pair_rule"})
    # rules whose violations carry a multi-line token slice (specs/wide_span_rules.json, derived by tools/wide_span_rules.py):
    # a tag pair around every single line, and a next-line tag before every line, of their own fixture
    import json
    import os

    wp = os.path.join(base.VERIF, "specs", "wide_span_rules.json")
    wide = json.load(open(wp)) if os.path.exists(wp) else {}
    from . import configs_k1

    have = {(o["seed"], o["shape"]) for o in out}
    for rid in sorted(wide):
        s = configs_k1.fixture_of(rid)
        if not s or len(corpus.lines_of(s)) > (40 if tier == "quick" else 60) or (s, "pair_rule") in have:
            continue
        si = universe.seedinfo(s)
        n = len(si.lines)
        pos = sorted(set([0] + [i + 1 for i in sorted(si.bound) if si.bound[i]["insert"]] + [n]))
        en = {"rule": {rid: {"disable": False}}} if configs_k1.inventory()[rid]["disable"] else None
        for i, j in zip(pos, pos[1:]):
            out.append({"id": f"{s}#off:{rid}@{i}-on@{j}", "seed": s, "style": None, "cfg": en, "tags": [[i, f"-- vsg_off {rid}"], [j, f"-- vsg_on {rid}"]], "shape": "pair_rule"})
            out.append({"id": f"{s}#next:{rid}@{i}", "seed": s, "style": None, "cfg": en, "tags": [[i, f"-- vsg_disable_next_line {rid}"]], "shape": "next"})
    return out


def main(tier):
    t0 = time.time()
    sq = seq_items(3 if tier == "quick" else 4)
    pl = place_items(tier)
    m1 = explore.run(sq, execute, horizon=60.0, label=PROP + "seq", chunk=32)
    m2 = explore.run(pl, execute, horizon=120.0, label=PROP + "place", chunk=8)
    return report.finish(
        PROP, tier, "model_checking", [m1, m2], t0,
        "(1) tag state machine: every sequence of tag events of length <= " + ("3" if tier == "quick" else "4") + " over a 14-symbol alphabet (bare/rule off, on, next-line, plain comment, code line, remark forms), "
        "each rendered as a small file whose code lines violate a case rule and a whitespace rule; the real parse + analysis must report each rule on each code line iff the reference model "
        "(written from docs/code_tags.rst) does not suppress it; lines on which the document is silent impose nothing; (2) on real seeds every placement of a bare off/on pair, of a rule off/on pair "
        "and of a next-line tag at admissible line boundaries: V(tagged) must equal the model filter of V(same file with neutral comments), violations straddling a tag boundary unconstrained; "
        "a file wrapped in vsg_off must come out of --fix unchanged apart from trailing whitespace; for every rule that fixes anything on a seed, --fix with that rule tagged off for the whole file must show no "
        "effective transition of that rule; non-trivial = sequences with a defined model / seeds with violations",
        ["the reference model is ~40 lines of Python next to the oracle; unspecified: `vsg_on x` while everything is off, a bare next-line tag, a next-line tag followed by an off/on tag"],
        extra_cov={"tag_sequences": m1.evaluations, "placements": m2.evaluations, "unspecified_lines_skipped": m1.extra.get("unspecified_lines", 0)},
        reproduce=reproduce,
        technique="exhaustive exploration of the tag state machine to a depth and of tag placements on seeds, real code against a reference model",
    )
