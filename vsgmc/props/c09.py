"""C09 — fixing converges: explicit functional graph of texts under the edge y = fix_c(x)."""
import time

from .. import base, drivers, explore, report, universe
from . import common

PROP = "C09"
KQ = ("J", "BL")
KT = KQ + ('NL',)
MAX_STEPS = 6
_memo = {}  # (cfg key, text hash) -> "fixpoint"


def fix_once(item, lines):
    it = dict(item)
    it["lines"] = lines
    it.pop("ops", None)
    ex = drivers.d_pipe(it, [])
    return ex


def execute(item):
    r = explore.Result()
    lines = universe.materialise(item)
    ck = base.h64([item.get("style"), item.get("cfg")])
    path = []  # hashes of texts on this path
    cur = lines
    steps = 0
    second_run_rules = None
    while True:
        h = (ck, base.h64(cur))
        if h in _memo:
            break
        ex = fix_once(item, cur)
        r.transitions += 1
        if ex.outcome != "ok":
            if ex.outcome == "rejected" and steps >= 1:
                r.notes.append(("blocked_by", "C08 output_rejected"))
            else:
                r.notes += common.to_result(ex, PROP).notes
            return r
        nxt = ex.final_lines
        r.states.add(h[1])
        if steps == 1:
            second_run_rules = ex.effective_rules[:1]  # the first rule that still finds something to change
        if nxt == cur:
            _memo[h] = "fixpoint"
            if len(_memo) > 20000:
                _memo.clear()
            break
        if steps >= 1:
            # cur is itself an output of fix and fix changes it again: transient (violates fix o fix == fix)
            pass
        path.append(h[1])
        hn = base.h64(nxt)
        if hn in path:
            k = len(path) - path.index(hn)
            r.violations.append({"key": (f"cycle:{k}", "+".join(second_run_rules or ex.effective_rules[:1])[:200]), "detail": {"steps": steps + 1}, "item": common.strip_item(item)})
            break
        cur = nxt
        steps += 1
        if steps >= MAX_STEPS:
            r.violations.append({"key": ("long_tail", "+".join(second_run_rules or [])[:200]), "detail": {"steps": steps}, "item": common.strip_item(item)})
            break
    if steps >= 2 and not r.violations:
        # x -> y1 -> y2 (!= y1) ... -> fixpoint: y1 was an output yet not a fixpoint
        r.violations.append({"key": ("transient", "+".join(second_run_rules or [])[:200]), "detail": {"fix_applications_until_stable": steps}, "item": common.strip_item(item)})
    r.effective = steps
    r.nontrivial = item["id"] if steps >= 1 else None
    if steps >= 1:
        r.sample = {"id": item["id"], "fix_applications_until_stable": steps}
    return r


def reproduce(item):
    _memo.clear()
    return {report.key_str(v["key"]) for v in execute(item).violations}


def main(tier):
    t0 = time.time()
    from .. import corpus, docspec

    spec = docspec.spec()
    k1r = {r for r, d in spec.items() if d["group"] in ("alignment", "indent", "structure")}
    its = common.pipe_items(tier, KQ, KT, k1=(tier != "quick"), k1_rules=k1r, all_on=False) + common.k2_items(tier, skip=(tier != "quick"), case=True, prereq=True)
    m = explore.run(its, execute, horizon=240.0, label=PROP)
    return report.finish(
        PROP, tier, "model_checking", [m], t0,
        "nodes = texts, one edge per configuration y = fix_c(x) computed by the real apply_rules --fix; from every start variant edges are followed until a fixpoint, a revisited node (cycle) "
        "or 6 steps; the property holds iff every node with an in-edge is a fixpoint; transitions = fix applications; non-trivial = start variants that fix changed",
        ["fixpoint texts are memoised per worker on (configuration, text hash)", "the finding signature is (kind, rules with an effective transition in the second run)"],
        extra_cov={"bound": common.bound_text(tier, KQ, KT) + "; K2: each single skip_phase / the documented use-clause indent options (also on the upper-cased seed) on the seeds concerned; each prerequisite rule disabled on the seeds with default values", "max_steps": MAX_STEPS},
        reproduce=reproduce,
        technique="explicit-state exploration of the functional graph of texts under fix; fixpoint / cycle classification",
    )
