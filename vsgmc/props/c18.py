"""C18 — the token index and every region of interest mirror the token list (monitored invariant at every
point where any rule obtains its tokens of interest, and at every splice)."""
import time

from vsg import parser
from vsg.token_map import process_tokens

from .. import corpus, docspec, drivers, explore, report, universe
from . import common

PROP = "C18"
KQ = ("NL", "CE", "J", "W0")
KT = KQ + ('CO', 'W3')


def nonempty(dMap):
    out = {}
    for b, d in dMap.items():
        for s, l in d.items():
            if l:
                out[(b, s)] = l
    return out


def map_fingerprint(dMap):
    """cheap content fingerprint of the index (an in-place edit of one of its lists must not hide behind object identity)"""
    fp = 0
    n = 0
    for d in dMap.values():
        for l in d.values():
            n += len(l)
            fp += sum(l)
    return fp * 1000003 + n


class Mon(drivers.Monitor):
    def __init__(self):
        self.spec = docspec.spec()
        self.verified = None  # (toks list object, token map object) for which index == recompute was established
        self.points = 0
        self.index_checks = 0
        self.regions = 0
        self.last_mutator = None
        self.rules = set()
        self.splices = 0

    def after_fix(self, ex, rule, before, after, changed):
        if changed:
            self.last_mutator = rule.unique_id

    def on_system(self, ex, name, before, after, changed):
        if changed:
            self.last_mutator = "<" + name + ">"

    def _check_index(self, ex, rule, stage):
        oF = ex.oFile
        lAll = oF.lAllObjects
        v = self.verified
        if v is not None and v[1] is oF.oTokenMap and v[0] == lAll and v[2] == map_fingerprint(oF.oTokenMap.dMap):
            return
        self.index_checks += 1
        ref = nonempty(process_tokens(lAll).dMap)
        cur = nonempty(oF.oTokenMap.dMap)
        if ref != cur:
            bad = sorted(k for k in set(ref) | set(cur) if ref.get(k) != cur.get(k))
            ex.violation((self.last_mutator or "<parse>", "index_stale", stage), {"seen_by": rule.unique_id, "roles": [":".join(b) for b in bad[:6]]})
            oF.oTokenMap = process_tokens(lAll)  # re-sync so that the next culprit is attributed correctly
        self.verified = (list(lAll), oF.oTokenMap, map_fingerprint(oF.oTokenMap.dMap))

    def on_toi(self, ex, rule, lToi, stage):
        self.points += 1
        self._check_index(ex, rule, stage)
        lAll = ex.oFile.lAllObjects
        rid = rule.unique_id
        try:
            it = list(lToi)
        except TypeError:
            return
        for oToi in it:
            if not hasattr(oToi, "iStartIndex") or not hasattr(oToi, "lTokens"):
                continue
            self.regions += 1
            start = oToi.iStartIndex
            toks = [t for t in oToi.lTokens if not isinstance(t, parser.beginning_of_file)]
            if start is None:
                d = self.spec.get(rid)
                if d is None or not d["unfixable"]:
                    ex.violation((rid, "region_without_start_index"), {})
                continue
            seg = lAll[start : start + len(toks)]
            if seg != toks:  # list equality of tokens is identity (no __eq__ defined)
                ex.violation((rid, "region_not_the_slice_at_start_index"), {"start": start, "len": len(toks), "first_region_token": toks[0].value if toks else None,
                                                                              "token_at_start": lAll[start].value if start < len(lAll) else None})
            elif oToi.iEndIndex != start + len(toks):
                ex.violation((rid, "region_end_index_wrong"), {"start": start, "end": oToi.iEndIndex, "len": len(toks)})
        self.rules.add(rid)

    def on_update(self, ex, rule, lUpdates):
        """A fix overwrites the tokens that were analysed and no others: every token of a replacement that
        already existed before this fix must come from the very slice [iStartIndex:iEndIndex] it replaces
        (indexes refer to the list as it was analysed; the product splices in reverse order)."""
        if not lUpdates:
            return
        rid = rule.unique_id if rule is not None else "?"
        pre = ex.snap.toks
        where = {}
        for i, t in enumerate(pre):  # (insert rules may put one token object at several places)
            where.setdefault(id(t), []).append(i)
        for v in lUpdates:
            o = v.oTokens
            s, e = o.iStartIndex, o.iEndIndex
            if s is None or e is None:
                ex.violation((rid, "update_without_indexes"), {})
                continue
            self.splices += 1
            for t in o.lTokens:
                li = where.get(id(t))
                if li is not None and not any(s <= i < e for i in li):
                    ex.violation((rid, "splice_carries_token_from_outside_its_slice"), {"slice": [s, e], "token_index": li[:3], "token": t.value})
                    break


def execute(item):
    mon = Mon()
    if item.get("check_only"):
        it = dict(item, lines=universe.materialise(item), argv=["-ap"])
        ex = drivers.d_pipe(it, [mon], want_toi=True, fix=False)
    else:
        ex = common.run_item(item, [mon], PROP, want_toi=True)
    r = common.to_result(ex, PROP)
    r.transitions = mon.points
    r.extra["regions"] = mon.regions
    r.extra["index_recomputations"] = mon.index_checks
    r.extra["rules_seen"] = mon.rules
    r.extra["splices"] = mon.splices
    r.nontrivial = item["id"] if ex.effective else None
    if ex.effective:
        r.sample = {"id": item["id"], "analysis_points": mon.points, "regions": mon.regions, "index_recomputations": mon.index_checks}
    return r


def reproduce(item):
    return {report.key_str(v["key"]) for v in execute(item).violations}


def main(tier):
    t0 = time.time()
    its = common.pipe_items(tier, KQ, KT, one_line=True, k1=(tier != "quick"))
    # plain all-phases check runs (no fix in front of them) of every fixture under the default and jcl configurations
    its += [dict(it, check_only=True, id=it["id"] + "#check") for it in universe.zero_dev(corpus.seed_ids(("fix", "cls")), styles=(None, "jcl"))]
    m = explore.run(its, execute, horizon=60.0, label=PROP)
    return report.finish(
        PROP, tier, "model_checking", [m], t0,
        "one execution = real apply_rules --fix followed by its check pass (plus plain -ap check runs of every fixture); the invariant is evaluated at every return of a rule's _get_tokens_of_interest "
        "(fix and check stages) and at every vhdlFile.update; transitions = analysis points; non-trivial = executions in which at least one fix changed the token list",
        ["index recomputation is memoised on (identity sequence of the token list, identity of the index object, sum/count fingerprint of the index lists): re-verified whenever any of them changed",
         "rules that override analyze() without _get_tokens_of_interest are observed only through vhdlFile.update"],
        extra_cov={"regions_checked": m.extra.get("regions", 0), "index_recomputations": m.extra.get("index_recomputations", 0),
                   "rules_observed": len(m.extra.get("rules_seen", ())), "splices_checked": m.extra.get("splices", 0), "bound": common.bound_text(tier, KQ, KT)},
        reproduce=reproduce,
        technique="explicit-state exploration of the fix+check pipeline with a monitored state invariant",
    )
