"""C05 — token classification does not depend on layout, comments or letter case (differential oracle between
the parse of a seed and the parse of each of its meaning-preserving re-layouts)."""
import time

from .. import base, corpus, explore, layout, report, universe
from . import common

PROP = "C05"
KINDS = tuple(k for k in layout.ALL_OPS if k not in ("WFF", "WNB", "CD", "CDG", "CDI", "PPO", "PGO", "UPI", "ALLJ"))  # inline delimited comments are not among the re-layouts the property names
_base = {}


def roles_of(lines):
    o = base.parse(lines)
    return [(base.role(t), base.norm_value(t)) for t in o.lAllObjects if base.is_code(t)]


def execute(item):
    r = explore.Result()
    sid = item["seed"]
    if sid not in _base:
        if len(_base) > 50:
            _base.clear()
        _base[sid] = roles_of(corpus.lines_of(sid))
    ref = _base[sid]
    lines = universe.materialise(item)
    r.transitions = 1
    kinds = "+".join(o[0] for o in item["ops"])
    try:
        got = roles_of(lines)
    except explore.Timeout:
        raise
    except Exception as e:  # noqa
        msg = str(getattr(e, "message", e))
        import re

        m = re.search(r"while parsing (\w+)", msg)
        r.violations.append({"key": ("relayout_rejected", kinds, f"{type(e).__name__}:{m.group(1) if m else explore.repo_frame(__import__('sys').exc_info()[2])}"), "detail": {"message": msg[:300]},
                             "item": common.strip_item(item)})
        return r
    r.nontrivial = item["id"]
    r.states = {base.h64([x[0] for x in got])}
    if got != ref:
        n = min(len(got), len(ref))
        i = next((k for k in range(n) if got[k] != ref[k]), n)
        if i < n and got[i][1] != ref[i][1]:
            kind = "code_tokens_differ"
            ctx = ""
        elif i < n:
            kind = "role_changed"
            ctx = f"{ref[i][0]}->{got[i][0]}"
        else:
            kind = "token_count_differs"
            ctx = ""
        r.violations.append({"key": (kind, kinds, ctx), "detail": {"index": i, "seed": ref[max(0, i - 2) : i + 3], "variant": got[max(0, i - 2) : i + 3]}, "item": common.strip_item(item)})
    if item["ops"] and item["ops"][0][0] in ("NL", "CE") and item["ops"][0][1] < 3:
        r.sample = {"id": item["id"], "code_tokens_compared": len(ref)}
    return r


def reproduce(item):
    return {report.key_str(v["key"]) for v in execute(item).violations}


def main(tier):
    t0 = time.time()
    if tier == "quick":
        its = universe.one_dev(corpus.small_slice(), KINDS) + universe.one_dev(corpus.seed_ids(("fix", "cls", "gen", "big")), ("ALLUP", "ALLLO", "ALLJ"))
        bound = "1 deviation (every layout and case operator at every position) over S_q; whole-file case flips and the whole design on one line over all seeds"
    else:
        fc = corpus.seed_ids(("fix", "cls"))
        small = [x for x in fc if len(corpus.lines_of(x)) <= 40]
        rest = [x for x in fc if len(corpus.lines_of(x)) > 40]
        its = universe.one_dev(small, KINDS) + universe.one_dev(rest, ("NL", "CE", "J", "W0", "WI", "ALLUP", "ALLLO", "ALLJ")) + universe.one_dev(fc, ("ALLJ",)) \
            + universe.one_dev(corpus.seed_ids(("gen", "big")), ("NL", "CE", "J", "ALLUP", "ALLLO", "ALLJ", "CAP"))
        singles = [s for s in corpus.small_slice() if s.startswith("gen/")]
        its += universe.two_dev(singles, ("NL", "CE", "J", "W0", "WI", "UP"), max_dist_lines=1)
        bound = "1 deviation (every operator) over the 799 fix/cls seeds of at most 40 lines, (NL, CE, J, W0, WI, whole-file operators) over the longer ones, (NL, CE, J, CAP, whole-file case, whole design on one line) over generated and large seeds; 2 deviations (NL, CE, J, W0, CD, UP; at most one line apart) over the single-construct generated designs"
    m = explore.run(its, execute, horizon=30.0, label=PROP, chunk=64)
    return report.finish(
        PROP, tier, "exploration", [m], t0,
        "every variant = seed + one (thorough: up to two) meaning-preserving re-layout(s): whitespace resize/removal/insertion, tab, line split/join, end-of-line / own-line / delimited comment, "
        "blank line, indentation, trailing whitespace, case change of one word or of all words, all line breaks removed; the (role, normalised value) sequence of code tokens of its parse must equal that of the seed's parse "
        "and the parse must succeed; non-trivial = variants accepted",
        ["operators never touch comments, pragmas, preprocessor lines, code-tag lines, literals or bit-string base specifiers; same-line rewrites are admitted only if the product-independent "
         "check nonblank(create(new)) == nonblank(create(old)) holds", "form feed / NBSP as separators are outside the alphabet (C04 shows VSG does not classify them)"],
        extra_cov={"bound": bound, "operators": list(KINDS), "distinct_role_sequences": len(m.states)},
        exhaustive=True,
        reproduce=reproduce,
        technique="bounded-exhaustive differential enumeration of re-layouts against the real classifier",
    )
