"""C01 — fixing never changes what the VHDL means.  Per transition: the code-token sequence of the model is
unchanged (non-structural rules) or unchanged modulo the documented redundant elements (normal form N,
structural rules); whole run: N(code(parse(input))) == N(code(parse(written file)))."""
import json
import os
import time

from .. import base, docspec, drivers, explore, normal, report
from . import common

PROP = "C01"
KQ = ("NL", "CE", "J", "W0", "CEG")
KT = KQ + ('NLI', 'CO')
FX = ("WI",)  # operators applied on the rule-focused slice only

_allow = None
UNIT_KEYWORDS = {"architecture", "entity", "package", "body", "process", "function", "procedure", "component", "context", "configuration", "block", "generate",
                 "case", "if", "loop", "record", "units", "protected", "postponed", "for"}


def allow_table():
    global _allow
    if _allow is None:
        p = os.path.join(base.VERIF, "specs", "c01_allow.json")
        _allow = json.load(open(p)) if os.path.exists(p) else {}
    return _allow


def seq_of_snap(snap):
    out = []
    for t, v in zip(snap.toks, snap.vals):
        if base.is_code(t):
            out.append((v if base.is_exact_literal(t) else v.lower(), base.role(t)))
    return out


def first_diff(a, b):
    n = min(len(a), len(b))
    i = next((k for k in range(n) if a[k] != b[k]), n)
    return {"index": i, "before": a[max(0, i - 3) : i + 4], "after": b[max(0, i - 3) : i + 4]}


class Mon(drivers.Monitor):
    def __init__(self):
        self.spec = docspec.spec()
        self.uses = set()  # (rule, allowance kind)
        self.fired = set()
        self.cur = None

    def _check(self, ex, who, structural, before, after):
        a = self.cur if self.cur is not None else seq_of_snap(before)
        b = seq_of_snap(after)
        self.cur = b
        if ex.violations:
            return  # the first violation of an execution names the culprit
        from .c02 import code_after_comment

        bad = code_after_comment(after.toks, after.vals)
        if bad:
            ex.violation((who, "code_token_left_behind_a_comment_on_its_line"), {"comment": bad[0], "followed_by": bad[1]})
            return
        va, vb = [v for v, r in a], [v for v, r in b]
        if va == vb:
            return
        if not structural:
            ex.violation((who, "non_structural_rule_changed_code_tokens"), first_diff(va, vb))
            return
        na, nb = normal.N(a), normal.N(b)
        if na != nb:
            ex.violation((who, "code_tokens_changed_beyond_redundant_elements"), first_diff(na, nb))
            return
        kind = normal.allowance_needed(a, b)
        self.uses.add((who, kind))
        allowed = allow_table().get(who)
        if allowed is None or kind not in allowed:
            ex.violation((who, f"rule_newly_uses_allowance:{kind}"), first_diff(va, vb))
        if "end" in kind:
            # whatever is inserted after `end` must be a unit keyword or a name the file already contains
            from collections import Counter

            ca = Counter(va)
            for v, c in (Counter(vb) - ca).items():
                if v not in UNIT_KEYWORDS and v not in ca:
                    ex.violation((who, "invented_token_after_end"), {"token": v})
                    break

    def after_fix(self, ex, rule, before, after, changed):
        if not changed:
            return
        rid = rule.unique_id
        self.fired.add(rid)
        d = self.spec.get(rid)
        structural = d is None or d["group"] == "structure"
        self._check(ex, rid, structural, before, after)

    def on_system(self, ex, name, before, after, changed):
        if changed:
            self._check(ex, "<" + name + ">", False, before, after)

    def on_start(self, ex):
        self.cur = seq_of_snap(ex.snap)
        self.initial = self.cur

    def on_end(self, ex):
        """whole run: the model the run ended with against the model it started from (normal form), and the
        bytes written against that final model (a code token that ends up behind `--` or fused with a
        neighbour disappears from a fresh tokenisation of the written text)"""
        final = seq_of_snap(ex.snap)
        if ex.violations:
            return
        na, nb = normal.N(self.initial), normal.N(final)
        if na != nb:
            culprit = "+".join(sorted(set(r for r in ex.effective_rules if (self.spec.get(r) or {"group": "structure"})["group"] == "structure"))[:4]) or "?"
            ex.violation(("whole_run", "final_model_differs_beyond_redundant_elements"), dict(first_diff(na, nb), structural_rules=culprit))
        if ex.final_lines is None:
            return
        try:
            b = base.code_values(base.parse(ex.final_lines).lAllObjects)
        except Exception as e:  # noqa
            ex.notes.append(("blocked_by", "C08 output_rejected"))
            return
        vm = [v for v, r in final]
        if ex.rl is not None and not ex.rl.had_violations:
            return  # nothing was written
        if b != vm:
            d = first_diff(vm, b)
            ex.violation(("whole_run", "written_text_tokenises_differently_from_model"), d)


def execute(item):
    mon = Mon()
    ex = common.run_item(item, [mon], PROP)
    r = common.to_result(ex, PROP)
    r.notes += ex.notes
    r.nontrivial = {(rid, item.get("cfgname", "")) for rid in mon.fired} if mon.fired else None
    r.extra["allowance_uses"] = {f"{a}:{b}" for a, b in mon.uses}
    if mon.uses:
        r.sample = {"id": item["id"], "structural_allowances_used": sorted(f"{a}:{b}" for a, b in mon.uses)[:6]}
    return r


def reproduce(item):
    return {report.key_str(v["key"]) for v in execute(item).violations}


def main(tier):
    t0 = time.time()
    spec = docspec.spec()
    structure = {r for r, d in spec.items() if d["group"] == "structure"}
    its = common.pipe_items(tier, KQ, KT, one_line=True, focus_extra=FX, k1=True, k1_rules=structure if tier == "quick" else None)
    m = explore.run(its, execute, horizon=90.0, label=PROP)
    uses = sorted(m.extra.get("allowance_uses", ()))
    return report.finish(
        PROP, tier, "model_checking", [m], t0,
        "one execution = real apply_rules --fix; every effective transition is checked (non-structural: code-token values identical modulo case outside literals; "
        "structural: identical after erasing the six documented redundant elements, and the (rule, allowance) pair must be on the reviewed list specs/c01_allow.json); "
        "whole run: same normal form between fresh parses of the bytes read and the bytes written; non-trivial = distinct (rule, option deviation) that changed the model",
        ["VSG's own role classes are used to recognise the redundant elements (a mis-classification is C05/C08 territory)",
         "the name after `end` is erased without matching it against the opener; an inserted token must however already occur in the file",
         "bit-string literals are compared case-insensitively (their case is the documented business of bit_string_literal_500/501)"],
        extra_cov={"allowance_uses_observed": uses, "bound": common.bound_text(tier, KQ, KT, FX)},
        reproduce=reproduce,
        technique="explicit-state exploration of the fix pipeline; per-transition and end-to-end token-sequence equivalence modulo a normal form",
    )
