"""C16 — write-back is all-or-nothing and keeps the file's mode.  Fault enumeration over the real
apply_rules --fix history: every intercepted OS-level call can be (a) a crash point (process killed before /
after it, torn writes), (b) the site of an injected OSError, singly and in ordered pairs; plus a rule raising
in the middle of the fix.  Executions run in forked children so that a kill loses Python-level buffers."""
import builtins
import errno
import itertools
import os
import shutil
import stat as statmod
import sys
import time
import types

from vsg import apply_rules as _ar
from vsg import rule_list as _rl_mod
from vsg.vhdlFile import utils as _vutils

from .. import base, corpus, drivers, explore, report, universe
from . import common

PROP = "C16"

ERRORS = {
    "PermissionError": lambda: PermissionError(errno.EACCES, "Permission denied (injected)"),
    "FileNotFoundError": lambda: FileNotFoundError(errno.ENOENT, "No such file (injected)"),
    "ENOSPC": lambda: OSError(errno.ENOSPC, "No space left on device (injected)"),
    "EIO": lambda: OSError(errno.EIO, "Input/output error (injected)"),
    "EROFS": lambda: OSError(errno.EROFS, "Read-only file system (injected)"),
    "IsADirectoryError": lambda: IsADirectoryError(errno.EISDIR, "Is a directory (injected)"),
}

FIXABLE = ["entity  E1   is", "  port (A : in std_logic;", "b : out std_logic);", "end entity e1;", "", "architecture   RTL of E1 is", "signal S : std_logic;", "begin", "b <= A;", "END ARCHITECTURE rtl;"]
CLEAN_SRC = ["", "entity e1 is", "end entity e1;", ""]
PARSE_FAIL = ["entity e1 is", "  port (", "end architecture;;", "architecture of is begin"]


class Plan:
    def __init__(self, faults=None, log=None):
        self.faults = faults or {}  # k -> ("raise", name) | ("kill_before",) | ("kill_after",) | ("torn", frac)
        self.k = 0
        self.log = log if log is not None else []

    def point(self, name, target=""):
        self.k += 1
        self.log.append((self.k, name, os.path.basename(str(target))))
        return self.faults.get(self.k)


def _die():
    os._exit(137)


class FileProxy:
    def __init__(self, f, plan, path):
        self._f, self._plan, self._path = f, plan, path

    def write(self, data):
        a = self._plan.point("write", self._path)
        if a:
            if a[0] == "kill_before":
                _die()
            if a[0] == "torn":
                n = {"none": 0, "half": len(data) // 2, "all_but_one": max(0, len(data) - 1)}[a[1]]
                self._f.write(data[:n])
                self._f.flush()
                _die()
            if a[0] == "raise":
                raise ERRORS[a[1]]()
        r = self._f.write(data)
        if a and a[0] == "kill_after":
            _die()
        return r

    def __enter__(self):
        return self

    def __exit__(self, *exc):
        a = self._plan.point("close", self._path)
        if a:
            if a[0] == "kill_before":
                _die()
            if a[0] == "raise":
                try:
                    self._f.close()
                finally:
                    raise ERRORS[a[1]]()
        self._f.close()
        if a and a[0] == "kill_after":
            _die()
        return False

    def __iter__(self):
        return iter(self._f)

    def __getattr__(self, n):
        return getattr(self._f, n)


class ReadProxy:
    """the file object the reader iterates over: one scheduling point `read`; an injected failure may strike before the first
    line or after half of the lines have been handed out (a read error in the middle of the file)"""

    def __init__(self, f, plan, path):
        self._f, self._plan, self._path = f, plan, path

    def __enter__(self):
        return self

    def __exit__(self, *exc):
        self._f.close()
        return False

    def __iter__(self):
        a = self._plan.point("read", self._path)
        if a and a[0] == "kill_before":
            _die()
        if a and a[0] == "raise":
            raise ERRORS[a[1]]()
        if a and a[0] == "raise_mid":
            lines = list(self._f)
            for ln in lines[: len(lines) // 2]:
                yield ln
            raise ERRORS[a[1]]()
        for ln in self._f:
            yield ln
        if a and a[0] == "kill_after":
            _die()

    def __getattr__(self, n):
        return getattr(self._f, n)


def install(plan):
    """replace, inside vsg.apply_rules (and the reader in vsg.vhdlFile.utils), the names through which the file system is touched"""

    def wrap(name, real, target_arg=0):
        def f(*a, **k):
            act = plan.point(name, a[target_arg] if len(a) > target_arg else "")
            if act:
                if act[0] == "kill_before":
                    _die()
                if act[0] == "raise":
                    raise ERRORS[act[1]]()
            r = real(*a, **k)
            if act and act[0] == "kill_after":
                _die()
            return r

        return f

    def open_w(path, mode="r", *a, **k):
        act = plan.point("open:" + mode, path)
        if act:
            if act[0] == "kill_before":
                _die()
            if act[0] == "raise":
                raise ERRORS[act[1]]()
        f = builtins.open(path, mode, *a, **k)
        if act and act[0] == "kill_after":
            _die()
        if "w" in mode:
            return FileProxy(f, plan, path)
        return ReadProxy(f, plan, path)

    os_proxy = types.SimpleNamespace(**{n: getattr(os, n) for n in dir(os) if not n.startswith("__")})
    os_proxy.stat = wrap("os.stat", os.stat)
    os_proxy.chmod = wrap("os.chmod", os.chmod)
    os_proxy.replace = wrap("os.replace", os.replace, 1)
    os_proxy.remove = wrap("os.remove", os.remove)
    sh_proxy = types.SimpleNamespace(copy2=wrap("shutil.copy2", shutil.copy2, 1))
    _ar.os = os_proxy
    _ar.shutil = sh_proxy
    _ar.open = open_w
    _vutils.open = open_w


def uninstall():
    _ar.os = os
    _ar.shutil = shutil
    for m in (_ar, _vutils):
        if "open" in m.__dict__:
            del m.__dict__["open"]


def scenario_dir(name):
    d = os.path.join(drivers.scratch(), "c16_" + name)
    shutil.rmtree(d, ignore_errors=True)
    os.makedirs(d)
    return d


def run_child(sc, faults, rule_fault=None):
    """one execution of the real apply_rules in a forked child; returns (kind, log, exception name)"""
    d = scenario_dir(sc["name"])
    path = os.path.join(d, "t.vhd")
    data = ("\n".join(sc["lines"]) + "\n").encode(sc.get("encoding", "utf-8"))
    with open(path, "wb") as f:
        f.write(data)
    os.chmod(path, sc["mode"])
    os.utime(path, ns=(1_500_000_000_000_000_000, 1_500_000_000_000_000_000))
    if sc.get("prebak"):
        # history: an earlier run (or a restore) left a backup file with other content behind, newer or older than the target
        with open(path + ".bak", "wb") as f:
            f.write(b"-- stale backup of an older revision\n")
        t = 1_600_000_000_000_000_000 if sc["prebak"] == "newer" else 1_400_000_000_000_000_000
        os.utime(path + ".bak", ns=(t, t))
    st0 = os.stat(path)
    argv = ["--fix"] + (["--backup"] if sc["backup"] else [])
    cla, oConfig, _ = drivers.build_config(None, sc.get("cfg"), argv, name=os.path.join("c16_" + sc["name"], "t.vhd"))
    rfd, wfd = os.pipe()
    pid = os.fork()
    if pid == 0:
        os.close(rfd)
        code = 0
        plan = Plan(faults)
        msg = ""
        try:
            devnull = open(os.devnull, "w")
            sys.stdout = devnull
            sys.stderr = devnull
            install(plan)
            if rule_fault is not None:
                real = _rl_mod.rule_list
                cnt = {"n": 0}

                def factory(*a, **k):
                    rl = real(*a, **k)
                    for r in rl.rules:
                        orig = r._fix_violation

                        def fv(v, orig=orig):
                            cnt["n"] += 1
                            if cnt["n"] == rule_fault:
                                raise RuntimeError("injected rule failure")
                            return orig(v)

                        r._fix_violation = fv
                    return rl

                _ar.rule_list = types.SimpleNamespace(rule_list=factory)
            try:
                res = _ar.apply_rules(cla, oConfig, (0, path))
                msg = "ok:" + ("rejected" if res[4] and "Error while processing" in str(res[4]) else "done")
            except BaseException as e:  # noqa
                code = 3
                msg = "exc:" + type(e).__name__
        finally:
            try:
                os.write(wfd, (msg + "\n" + repr(plan.log)).encode())
            except Exception:  # noqa
                pass
            os._exit(code)
    os.close(wfd)
    buf = b""
    while True:
        chunk = os.read(rfd, 65536)
        if not chunk:
            break
        buf += chunk
    os.close(rfd)
    _, status = os.waitpid(pid, 0)
    ec = os.waitstatus_to_exitcode(status)
    txt = buf.decode(errors="replace")
    msg, _, logrepr = txt.partition("\n")
    try:
        log = eval(logrepr) if logrepr else []
    except Exception:  # noqa
        log = []
    kind = "killed" if ec == 137 else ("exception" if ec == 3 else "returned")
    return kind, msg, log, d, path, data, st0


def inspect(sc, kind, msg, d, path, original, st0, fixed, remove_faulted=False):
    """the invariant, read off the scratch directory"""
    out = []
    try:
        with open(path, "rb") as f:
            now = f.read()
        st = os.stat(path)
    except OSError as e:
        return [("target_missing", type(e).__name__)]
    if now != original and now != fixed:
        what = "truncated" if (fixed.startswith(now) or original.startswith(now)) else "mixed"
        out.append(("target_content_neither_original_nor_fixed", what))
    if statmod.S_IMODE(st.st_mode) != sc["mode"]:
        out.append(("mode_changed", f"{oct(sc['mode'])}->{oct(statmod.S_IMODE(st.st_mode))}"))
    if sc["backup"] and os.path.exists(path + ".bak"):
        with open(path + ".bak", "rb") as f:
            bak = f.read()
        stale = sc.get("prebak") and bak == b"-- stale backup of an older revision\n"
        # a run that died or failed before/at the copy may leave the old backup; a run that went on to touch the target may not
        if bak != original and not (stale and now == original):
            out.append(("backup_differs_from_original", "stale" if stale else ""))
    if kind != "killed" and not remove_faulted and os.path.exists(path + ".tmp"):  # (if the removal itself is the injected failure nothing can remove it)
        out.append(("temporary_file_left_behind", kind))
    if sc["expect"] in ("parse_failure", "config_error"):
        if now != original or st.st_ino != st0.st_ino or st.st_mtime_ns != st0.st_mtime_ns:
            out.append(("unprocessable_file_was_modified", sc["expect"]))
    others = sorted(f for f in os.listdir(d) if f not in ("t.vhd", "t.vhd.bak", "t.vhd.tmp"))
    if others:
        out.append(("unexpected_files", ",".join(others)[:40]))
    return out


_fixed_cache = {}


def fixed_of(sc):
    key = (tuple(sc["lines"]), repr(sc.get("cfg")))
    if key not in _fixed_cache:
        # the reference is always computed from the UTF-8 spelling of the text: VSG writes UTF-8 whatever it read, so the fixed bytes
        # of a Latin-1 file are those of its UTF-8 twin (an independent oracle for the decoding fall-back of the reader)
        ref = dict(sc, backup=False, mode=0o644, name=sc["name"] + "_ref")
        ref.pop("encoding", None)
        ref.pop("prebak", None)
        kind, msg, log, d, path, data, st0 = run_child(ref, {})
        with open(path, "rb") as f:
            _fixed_cache[key] = (f.read(), log, msg)
    return _fixed_cache[key]


def execute(item):
    r = explore.Result()
    sc = item["scenario"]
    fixed, reflog, refmsg = fixed_of(sc)
    faults = {int(k): tuple(v) for k, v in item.get("faults", {}).items()}
    kind, msg, log, d, path, original, st0 = run_child(sc, faults, item.get("rule_fault"))
    r.transitions = len(log)
    names = {k: n for k, n, t in log}
    bad = inspect(sc, kind, msg, d, path, original, st0, fixed, remove_faulted=any(names.get(k) == "os.remove" for k in faults))
    with open(path, "rb") as f:
        end = f.read()
    r.states.add(base.h64((kind, end == original, end == fixed, os.path.exists(path + ".tmp"), os.path.exists(path + ".bak"))))
    r.extra["outcome_" + kind] = 1
    r.nontrivial = item["id"]
    names = {k: n for k, n, t in log}
    for b in bad:
        site = "+".join(f"{names.get(k, '?')}:{'/'.join(map(str, faults[k]))}" for k in sorted(faults)) or (f"rule_fault" if item.get("rule_fault") else "none")
        r.violations.append({"key": (b[0], b[1], sc["expect"], site), "detail": {"outcome": kind, "message": msg, "calls": [f"{k}:{n}:{t}" for k, n, t in log]}, "item": item})
    if item.get("sample"):
        r.sample = {"id": item["id"], "history": [f"{k}:{n}:{t}" for k, n, t in log], "faults": item.get("faults", {}), "outcome": kind + "/" + msg}
    return r


def reproduce(item):
    return {report.key_str(v["key"]) for v in execute(item).violations}


def scenarios(tier):
    out = []
    modes = (0o644, 0o600, 0o444, 0o755)
    inputs = [("fixable", FIXABLE, None), ("clean", CLEAN_SRC, None), ("parse_failure", PARSE_FAIL, None),
              ("config_error", FIXABLE, {"rule": {"no_such_rule_999": {"disable": True}}})]
    big = corpus.lines_of("big/spi_master") if tier != "quick" else None
    if big:
        inputs.append(("fixable", big, None))
    for i, (expect, lines, cfg) in enumerate(inputs):
        for backup in (False, True):
            for mode in modes:
                if tier == "quick" and expect != "fixable" and mode not in (0o644, 0o444):
                    continue
                out.append({"name": f"{expect}{i}_{'b' if backup else 'n'}_{oct(mode)[2:]}", "expect": expect, "lines": lines, "cfg": cfg, "backup": backup, "mode": mode})
    # a file that is not UTF-8: the first non-UTF-8 byte lies beyond the first decoding chunk of the reader (long comment header)
    latin = ["-- " + "header line %03d " % i + "x" * 40 for i in range(200)] + ["-- gr\u00fc\u00dfe / caf\u00e9"] + FIXABLE
    for backup in (False, True):
        out.append({"name": f"latin1_{'b' if backup else 'n'}_644", "expect": "fixable", "lines": latin, "cfg": None, "backup": backup, "mode": 0o644, "encoding": "ISO-8859-1"})
    for pre in ("newer", "older"):
        out.append({"name": f"fixable0_b_644_bak{pre}", "expect": "fixable", "lines": FIXABLE, "cfg": None, "backup": True, "mode": 0o644, "prebak": pre})
    return out


def items(tier):
    out = []
    for sc in scenarios(tier):
        # learn the history of this scenario with a fault-free run
        kind, msg, log, *_ = run_child(sc, {})
        n = len(log)
        names = {k: nm for k, nm, t in log}
        out.append({"id": f"{sc['name']}/nofault", "scenario": sc, "faults": {}, "sample": sc["name"].startswith("fixable0_b_644")})
        for k in range(1, n + 1):
            for kk in ("kill_before", "kill_after"):
                out.append({"id": f"{sc['name']}/{kk}@{k}:{names[k]}", "scenario": sc, "faults": {k: [kk]}, "sample": (k == 6 and sc["name"] == "fixable0_b_644" and kk == "kill_after")})
            if names[k] == "read":
                for e in ("EIO", "PermissionError"):
                    out.append({"id": f"{sc['name']}/{e}@{k}:read_mid", "scenario": sc, "faults": {k: ["raise_mid", e]}})
            if names[k] == "write":
                for frac in ("none", "half", "all_but_one"):
                    out.append({"id": f"{sc['name']}/torn:{frac}@{k}", "scenario": sc, "faults": {k: ["torn", frac]}})
            for e in ERRORS:
                out.append({"id": f"{sc['name']}/{e}@{k}:{names[k]}", "scenario": sc, "faults": {k: ["raise", e]}})
        full_pairs = tier != "quick" or sc["name"] in ("fixable0_b_644", "fixable0_n_444")
        for k1, k2 in itertools.combinations(range(1, n + 1), 2):
            for e1 in ERRORS:
                for e2 in ERRORS if full_pairs else (e1,):
                    out.append({"id": f"{sc['name']}/{e1}@{k1}+{e2}@{k2}", "scenario": sc, "faults": {k1: ["raise", e1], k2: ["raise", e2]}})
        if sc["expect"] == "fixable":
            for mth in range(1, 40 if tier != "quick" else 12):
                out.append({"id": f"{sc['name']}/rule_raises@{mth}", "scenario": sc, "faults": {}, "rule_fault": mth})
            # a crash right after a rule raised is the same as the rule raising: covered
    return out


def main(tier):
    t0 = time.time()
    its = items(tier)
    m = explore.run(its, execute, horizon=120.0, label=PROP, chunk=16)
    outcomes = {k[8:]: v for k, v in m.extra.items() if k.startswith("outcome_")}
    return report.finish(
        PROP, tier, "fault_enumeration", [m], t0,
        "history = the OS-level calls of one real apply_rules --fix execution (read open, read (failure before the first or in the middle of the lines), [shutil.copy2], os.stat, open tmp, write x2, close, os.chmod, os.replace, os.remove), intercepted inside "
        "vsg.apply_rules / vsg.vhdlFile.utils; enumerated: kill before and after every call, torn writes (0, half, all-but-one byte flushed), every single injected OSError of 6 kinds at every call, "
        "ordered pairs of faults, a rule raising at its m-th repair; x {with, without --backup} x original modes {644,600,444,755} x inputs {fixable, clean, parse failure, configuration error, a Latin-1 file whose first non-UTF-8 byte lies beyond 12 KiB (reference: the fixed bytes of its UTF-8 twin)}; "
        "each execution runs in a forked child (a kill is os._exit: unflushed buffers are lost); the invariant is read off the directory afterwards; non-trivial = every execution (each carries a fault plan)",
        ["os.replace is atomic (POSIX rename); open(tmp,'w') never touches the target; kernel-level torn renames and power loss without fsync are outside the model",
         "in quick, fault pairs use the same error kind at both sites except for two scenarios that get the full 6x6 product"],
        extra_cov={"scenarios": len(scenarios(tier)), "outcomes": outcomes, "distinct_end_states": len(m.states)},
        exhaustive=True,
        reproduce=reproduce,
        technique="exhaustive enumeration of crash points and injected OS-call failures (single and pairs) over the real write-back history",
    )
