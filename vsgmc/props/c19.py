"""C19 — every accepted file can be checked and fixed without a crash or a hang; rejected files are reported
with a located one-line syntax message, exit status 1, and the remaining files are still processed."""
import contextlib
import io
import os
import re
import sys
import time

from vsg import rule_list, vhdlFile

from .. import base, corpus, drivers, explore, layout, report, universe
from . import common, configs_k1

PROP = "C19"
KQ = ("NL", "J", "CE", "W0")
KT = KQ + ('NLI', 'UP')
_cur = {"rule": None}


# ---------------------------------------------------------------- (a) every rule on every seed, in isolation
def exec_isolated(item):
    r = explore.Result()
    lines = universe.materialise(item)
    try:
        oFile = base.parse(lines)
    except Exception:  # noqa
        return r
    oConfig = None
    cla, oConfig, path = drivers.build_config(None, item.get("cfg"), (), lines=lines)
    oFile.set_indent_map(oConfig.dIndent)
    with contextlib.redirect_stdout(io.StringIO()):
        rl = rule_list.rule_list(oFile, oConfig.severity_list)
        rl.configure(oConfig)
    only = item.get("only_rule")
    fired = set()
    try:
        for rule in rl.rules:
            if rule.deprecated or rule.proposed or (only and rule.unique_id != only):
                continue
            _cur["rule"] = rule.unique_id
            r.transitions += 1
            try:
                with contextlib.redirect_stdout(io.StringIO()):
                    rule.analyze(oFile)
                    n = len(rule.violations)
                    rule.clear_violations()
                    if n:
                        fired.add(rule.unique_id)
                        f2 = drivers.clone_file(oFile)
                        rule.fix(f2)
                        r.effective += 1
            except explore.Timeout:
                raise
            except Exception as e:  # noqa
                fr = explore.repo_frame(sys.exc_info()[2])
                r.violations.append({"key": (f"exception:{type(e).__name__}@{fr}", "isolated"), "detail": {"rule": rule.unique_id, "message": str(e)[:160]},
                                     "item": dict(common.strip_item(item), only_rule=rule.unique_id)})
                rule.violations = []
    except explore.Timeout:
        r.violations.append({"key": (f"hang@{_cur['rule']}", "isolated"), "detail": {}, "item": dict(common.strip_item(item), only_rule=_cur["rule"])})
    r.nontrivial = {(x, item.get("cfgname", "")) for x in fired} or None
    if fired:
        r.sample = {"id": item["id"], "mode": "isolated analyze+fix of every live rule", "rules_with_violations": len(fired)}
    return r


# ---------------------------------------------------------------- (b) whole pipeline on variants
def exec_pipe(item):
    ex = common.run_item(item, [], PROP)
    r = common.to_result(ex, PROP)
    if ex.outcome in ("exception", "timeout"):
        r.violations.append({"key": (common.exc_key(ex), "pipeline"), "detail": {"exception": ex.exception}, "item": common.strip_item(item)})
    r.nontrivial = item["id"] if ex.effective else None
    return r


# ---------------------------------------------------------------- (c) rejection
GOOD = ["entity good is", "end entity good;"]
REPL = (";", "(", ")", "end", "is", "begin")


def mutations(sid):
    """all single-token mutations of a seed: delete token i, duplicate it, swap with the next, replace by a delimiter/keyword"""
    si = universe.seedinfo(sid)
    o = base.parse(si.lines)
    pos = []
    line = col = 0
    from vsg import parser

    for t in o.lAllObjects:
        if isinstance(t, parser.carriage_return):
            line += 1
            col = 0
            continue
        if base.is_code(t):
            pos.append((line, col, col + len(t.value)))
        col += len(t.value)
    out = []
    for i, (ln, s, e) in enumerate(pos):
        out.append(("del", i))
        out.append(("dup", i))
        if i + 1 < len(pos):
            out.append(("swap", i))
        for k, rp in enumerate(REPL):
            out.append((f"rep{k}", i))
    return pos, out


def apply_mutation(lines, pos, mut):
    kind, i = mut
    ln, s, e = pos[i]
    L = lines[ln]
    tok = L[s:e]
    lines = list(lines)
    if kind == "del":
        lines[ln] = L[:s] + L[e:]
    elif kind == "dup":
        lines[ln] = L[:e] + " " + tok + L[e:]
    elif kind == "swap":
        ln2, s2, e2 = pos[i + 1]
        tok2 = lines[ln2][s2:e2]
        if ln2 == ln:
            lines[ln] = L[:s] + tok2 + L[e:s2] + tok + L[e2:]
        else:
            L2 = lines[ln2]
            lines[ln2] = L2[:s2] + tok + L2[e2:]
            lines[ln] = L[:s] + tok2 + L[e:]
    else:
        lines[ln] = L[:s] + REPL[int(kind[3:])] + L[e:]
    return lines


_TRACE = re.compile(r"Traceback \(most recent call last\)")


def exec_reject(item):
    r = explore.Result()
    si = universe.seedinfo(item["seed"])
    lines = apply_mutation(si.lines, item["pos"], tuple(item["mut"])) if "text" not in item else item["text"]
    if item.get("lead"):
        # the same mutant with the lines in front of the first code line dropped: the offending token stands on line 1 of the file
        k = next((i for i, l in enumerate(lines) if l.strip()), 0)
        lines = lines[k:]
    d = drivers.scratch()
    bad, good = os.path.join(d, "bad.vhd"), os.path.join(d, "good.vhd")
    with open(bad, "w") as f:
        f.write("\n".join(lines) + "\n")
    with open(good, "w") as f:
        f.write("\n".join(GOOD) + "\n")
    r.transitions = 1
    extra = list(item.get("argv", ()))
    extra = [a.replace("<D>", d) for a in extra]
    try:
        status, so, se, exc = drivers.d_main(["-f", bad, good, "-p", "1"] + extra)
    except explore.Timeout:
        r.violations.append({"key": ("hang_in_classification", item["mut"][0][:3]), "detail": {"text": lines[:30]}, "item": dict(item, text=lines)})
        return r
    if exc is not None:
        r.violations.append({"key": (f"escaped:{exc[0]}@{exc[1]}", "main" + ("" if not extra else ":" + extra[0])), "detail": {"message": exc[2], "argv": extra}, "item": dict(item, text=lines)})
        return r
    rejected = "Error while processing" in se or "Error while processing" in so
    if not rejected:
        r.extra["accepted_mutants"] = 1
        return r
    r.nontrivial = item["id"]
    r.extra["rejected_mutants"] = 1
    if _TRACE.search(se) or _TRACE.search(so):
        r.violations.append({"key": ("traceback_printed", "main"), "detail": {}, "item": dict(item, text=lines)})
    if status != 1:
        r.violations.append({"key": ("rejected_file_but_exit_status_not_1", str(status)), "detail": {}, "item": dict(item, text=lines)})
    msg = se + so
    if not re.search(r"Error while processing .*bad\.vhd", msg) or not re.search(r"[Ll]ine\s*:?\s*\d+", msg):
        r.violations.append({"key": ("rejection_message_not_located", "main"), "detail": {"message": msg[:300]}, "item": dict(item, text=lines)})
    if "good.vhd" not in so and "-of" not in extra:
        r.violations.append({"key": ("file_after_rejected_file_not_processed", "main"), "detail": {"stdout": so[:200]}, "item": dict(item, text=lines)})
    if r.sample is None:
        r.sample = {"id": item["id"], "mode": "rejection", "first_line_of_message": msg.strip().split("\n")[0][:120]}
    return r


OUTPUT_OPTIONS = (["--quality_report", "<D>/q.json"], ["--json", "<D>/j.json"], ["--junit", "<D>/j.xml"], ["--json", "<D>/j.json", "--quality_report", "<D>/q.json", "--junit", "<D>/j.xml"],
                  ["-of", "syntastic"], ["-of", "summary"], ["--fix"], ["-ap"], ["--fix", "--backup"], ["--style", "jcl"])


def reject_items(seeds):
    out = []
    for sid in seeds:
        pos, muts = mutations(sid)
        first = min((p[0] for p in pos), default=0)
        blank_lead = all(not l.strip() for l in universe.seedinfo(sid).lines[:first])
        for m in muts:
            out.append({"id": f"{sid}#{m[0]}@{m[1]}", "seed": sid, "pos": pos, "mut": list(m)})
            if first > 0 and blank_lead and pos[m[1]][0] == first:
                out.append({"id": f"{sid}#{m[0]}@{m[1]}#line1", "seed": sid, "pos": pos, "mut": list(m), "lead": True})
    # a file that is certainly rejected, under every output option
    for txt_id, txt in (("parsefail", ["entity pf is", "  port (", "end architecture;;", "architecture of is begin"]), ("parsefail2", ["architecture a of b is", "begin", "  x <= ;;", "end process;"])):
        for k, opts in enumerate(OUTPUT_OPTIONS):
            out.append({"id": f"{txt_id}#opt{k}", "seed": seeds[0], "pos": [], "mut": ["txt", 0], "text": txt, "argv": opts})
    return out


# ---------------------------------------------------------------- (d) documented configuration features, alone and in pairs
def feature_configs(path):
    sev = {"severity": {"Todo": {"type": "error"}, "Future": {"type": "warning"}}}
    F = {
        "user_severity_rule": dict(sev, rule={"entity_004": {"severity": "Future"}, "port_007": {"severity": "Todo"}}),
        "user_severity_global": dict(sev, rule={"global": {"severity": "Future"}}),
        "user_severity_group": dict(sev, rule={"group": {"case": {"severity": "Todo"}, "whitespace": {"severity": "Future"}}}),
        "user_severity_file_rules": dict(sev, file_rules=[{path: {"rule": {"entity_004": {"severity": "Future"}, "whitespace_001": {"severity": "Todo"}}}}]),
        "user_severity_file_list": dict(sev, file_list=[{path: {"rule": {"entity_004": {"severity": "Todo"}}}}]),
        "file_rules_plain": {"file_rules": [{path: {"rule": {"entity_004": {"disable": True}, "length_001": {"severity": "Error", "length": 40}}}}]},
        "skip_phase": {"skip_phase": [2, 5, 7]},
        "linesep": {"linesep": "\r\n"},
        "indent": {"indent": {"tokens": {"use_clause": {"keyword": {"token_if_no_matching_library_clause": "current"}}, "process_statement": {"begin_keyword": {"token": "current", "after": "+2"}}}}},
        "pragma_single_only": {"pragma": {"patterns": {"single": ["^\\s*--\\s+mytool\\s+\\w+\\s*$"], "open": [], "close": []}}},
        "pragma_single_key": {"pragma": {"patterns": {"single": ["^\\s*--\\s+mytool\\s+\\w+\\s*$"]}}},
        "pragma_open_close": {"pragma": {"patterns": {"open": ["^\\s*--\\s+mytool\\s+off\\s*$"], "close": ["^\\s*--\\s+mytool\\s+on\\s*$"]}}},
        "global_indent": {"rule": {"global": {"indent_size": 4, "indent_style": "smart_tabs"}}},
        "group_disable": {"rule": {"group": {"case": {"disable": True}, "alignment": {"fixable": False}}}},
        "user_error_message": {"rule": {"global": {"user_error_message": "see the style guide"}}},
    }
    return F


def exec_feature(item):
    r = explore.Result()
    lines = universe.materialise(item)
    cla, oConfig, path = drivers.build_config(None, None, (), lines=lines)
    F = feature_configs(path)
    names = item["features"]
    cfgs = [F[n] for n in names]
    for fix in (False, True):
        it = dict(item, lines=lines, cfg=cfgs, style=item.get("style"))
        ex = drivers.d_pipe(it, [], fix=fix, extra_argv=[] if fix else ["-ap"])
        r.transitions += ex.transitions
        if ex.outcome in ("exception", "timeout"):
            r.violations.append({"key": (common.exc_key(ex), "configuration:" + "+".join(names)), "detail": {"exception": ex.exception, "fix": fix}, "item": common.strip_item(item)})
            break
        if ex.outcome == "config_exit":
            r.violations.append({"key": ("valid_configuration_rejected", "+".join(names)), "detail": {"output": str(ex.stdout)[:300]}, "item": common.strip_item(item)})
            break
    r.nontrivial = item["id"]
    return r


def feature_items(tier):
    import itertools

    names = list(feature_configs("x"))
    seeds = [s for s in corpus.small_slice(max_lines=25) if s.startswith("fix/")][:: (12 if tier == "quick" else 3)] + ["gen/conc/proc", "gen/unit/entgen", "fix/comment/rule_010", "fix/pragma/rule_300"]
    out = []
    combos = [(n,) for n in names] + [c for c in itertools.combinations(names, 2) if tier != "quick" or c[0].startswith("user_severity")]
    for s in seeds:
        for c in combos:
            for st in (None, "jcl") if len(c) == 1 else (None,):
                out.append(dict(universe.mk(s, (), st), mode="feature", features=list(c), id=f"{s}%{st}#cfg:{'+'.join(c)}"))
    return out


def execute(item):
    if item.get("mode") == "feature":
        return exec_feature(item)
    if "mut" in item:
        return exec_reject(item)
    if item.get("mode") == "isolated":
        return exec_isolated(item)
    return exec_pipe(item)


def reproduce(item):
    import signal

    signal.setitimer(signal.ITIMER_REAL, 6.0 if "mut" in item else (120.0 if item.get("mode") == "isolated" else 30.0))  # the horizons of the exploration
    r = execute(item)
    signal.setitimer(signal.ITIMER_REAL, 0)
    return {report.key_str(v["key"]) for v in r.violations}


def main(tier):
    t0 = time.time()
    seeds = corpus.seed_ids(("fix", "cls", "gen")) + corpus.seed_ids(("big",))
    iso = [dict(universe.mk(s), mode="isolated") for s in seeds]
    k1 = configs_k1.items_for_own_fixtures(limit_values=2 if tier == "quick" else None)
    for it in k1:
        it["mode"] = "isolated"
    pipe = common.pipe_items(tier, KQ, KT, one_line=True, k1=True)
    small = [s for s in corpus.small_slice(max_lines=25) if s.startswith(("fix/", "cls/"))]
    rej = reject_items(small[:12] if tier == "quick" else small)
    m1 = explore.run(iso + k1, execute, horizon=120.0, label=PROP + "a", chunk=4)
    m2 = explore.run(pipe, execute, horizon=30.0, label=PROP + "b")
    m3 = explore.run(rej, execute, horizon=6.0, label=PROP + "c", chunk=16)
    m4 = explore.run(feature_items(tier), execute, horizon=60.0, label=PROP + "d", chunk=8)
    # watchdog expiries that the drivers did not attribute themselves
    for m in (m1, m2, m3, m4):
        for t in m.timeouts:
            print(f"NOTE: watchdog expired outside an attributed call: {t}")
    return report.finish(
        PROP, tier, "exploration", [m1, m2, m3, m4], t0,
        "(a) every live rule analysed, and fixed when it reports, in isolation on every seed (and under every K1 option value on its own fixture); (b) the whole --fix pipeline on every "
        "variant of the shared fix-run universe; (d) documented configuration features (user-defined severities at every level incl. per-file, file_rules, skip_phase, linesep, indent and pragma "
        "overrides, global/group attributes) alone and in pairs, check and fix, on probe seeds; (c) every single-token mutation (delete, duplicate, swap, replace by ; ( ) end is begin) of small seeds (mutants of the first code line also with that line as line 1 of the file) through the real main() followed by a good file; "
        "non-trivial = (rule, option) pairs that reported in (a), variants that fix changed in (b), mutants that were rejected in (c)",
        ["horizon: 120 s per seed in (a), 30 s per pipeline run, 6 s per mutant; exceeding it is reported as a hang", "mutants the classifier accepts impose no obligation in (c)"],
        extra_cov={"isolated_rule_applications": m1.transitions, "pipeline_runs": m2.evaluations, "mutants": m3.evaluations, "configuration_feature_runs": m4.evaluations, "mutants_rejected": m3.extra.get("rejected_mutants", 0),
                   "mutants_accepted": m3.extra.get("accepted_mutants", 0), "bound": common.bound_text(tier, KQ, KT)},
        reproduce=reproduce,
        repro_horizon=150.0,
        technique="bounded-exhaustive enumeration of rule x input x option and of single-token mutations against the real code, with a watchdog",
    )
