"""C17 — the emitted configuration reproduces the run: oc(oc(s,c)) == oc(s,c) byte for byte, -rc fragments
agree with it, and feeding it back through -c gives the same violations and fixes on every input."""
import json
import os
import time

from .. import base, corpus, drivers, explore, report, universe
from . import common, configs_k1

PROP = "C17"


def write_cfgs(d, cfgs, tag):
    paths = []
    for i, c in enumerate(cfgs):
        p = os.path.join(d, f"{tag}{i}.json")
        with open(p, "w") as f:
            json.dump(c, f)
        paths.append(p)
    return paths


def emit(d, style, cfg_paths, name):
    out = os.path.join(d, name)
    if os.path.exists(out):
        os.remove(out)
    argv = ["-oc", out] + (["--style", style] if style else []) + (["-c"] + cfg_paths if cfg_paths else [])
    st, so, se, exc = drivers.d_main(argv)
    if exc is not None or st not in (0, None) or not os.path.exists(out):
        return None, (st, so[:300], se[:300], exc)
    with open(out) as f:
        return f.read(), None


def run_on(seed_lines, style, cfgs, fix):
    it = {"id": "x", "lines": seed_lines, "style": style, "cfg": (cfgs if cfgs else None)}
    ex = drivers.d_pipe(it, [], fix=fix, extra_argv=[] if fix else ["-ap"])
    if ex.outcome != "ok" or ex.rl is None:
        return ("outcome", ex.outcome, ex.exception if ex.exception else (ex.result[4] if ex.result else None))
    V = sorted((x.unique_id, v.get_line_number(), v.get_solution() or "", x.severity.name) for x in ex.rl.rules for v in x.violations)
    return ("ok", V, ex.final_lines if fix else None, bool(ex.result[0]))


def execute(item):
    r = explore.Result()
    d = os.path.join(drivers.scratch(), "c17")
    os.makedirs(d, exist_ok=True)
    style, cfgs = item["style"], item["cfgs"]
    paths = write_cfgs(d, cfgs, "in")
    oc1, err = emit(d, style, paths, "oc1.json")
    r.transitions = 1
    strip = dict(item)
    if oc1 is None:
        if item.get("expect_ok", True):
            r.violations.append({"key": ("output_configuration_fails", item["shape"], (err[3][0] + "@" + str(err[3][1])) if err[3] else f"exit={err[0]}"), "detail": {"error": err}, "item": strip})
        return r
    p1 = os.path.join(d, "oc1_in.json")
    with open(p1, "w") as f:
        f.write(oc1)
    oc2, err = emit(d, None, [p1], "oc2.json")
    r.transitions += 1
    if oc2 is None:
        r.violations.append({"key": ("emitted_configuration_is_not_accepted_back", item["shape"], (err[3][0] + "@" + str(err[3][1])) if err[3] else f"exit={err[0]}"), "detail": {"error": err}, "item": strip})
        return r
    r.nontrivial = item["id"]
    r.states.add(base.h64(oc1))
    if oc2 != oc1:
        a, b = json.loads(oc1), json.loads(oc2)
        diff = []
        for k in sorted(set(a) | set(b)):
            if a.get(k) != b.get(k):
                if k == "rule":
                    for rid in sorted(set(a["rule"]) | set(b["rule"])):
                        if a["rule"].get(rid) != b["rule"].get(rid):
                            ra, rb = a["rule"].get(rid) or {}, b["rule"].get(rid) or {}
                            diff.append((rid, [x for x in sorted(set(ra) | set(rb)) if ra.get(x) != rb.get(x)]))
                else:
                    diff.append((k, None))
        attrs = sorted({x for _, l in diff if l for x in l})
        r.violations.append({"key": ("re_emitted_configuration_differs", item["shape"], ",".join(attrs)[:60] or ",".join(k for k, _ in diff)[:60]), "detail": {"differences": diff[:5]}, "item": strip})
        return r
    # -rc fragments
    d1 = json.loads(oc1)
    for rid in item.get("rc_rules", ()):
        for tag, argv in (("stack", (["--style", style] if style else []) + (["-c"] + paths if paths else [])), ("emitted", ["-c", p1])):
            st, so, se, exc = drivers.d_main(["-rc", rid] + argv)
            r.transitions += 1
            try:
                frag = json.loads(so)
            except Exception:  # noqa
                frag = None
            if exc is not None or frag is None or frag.get("rule", {}).get(rid) != d1["rule"].get(rid):
                r.violations.append({"key": ("rule_configuration_fragment_differs_from_output_configuration", tag), "detail": {"rule": rid, "fragment": frag, "emitted": d1["rule"].get(rid), "exc": exc},
                                     "item": strip})
                return r
    # behaviour: same violations and same fixes on inputs
    emitted_cfg = json.loads(oc1)
    for sid in item.get("seeds", ()):
        lines = corpus.lines_of(sid)
        for fix in (False, True):
            a = run_on(lines, style, cfgs, fix)
            b = run_on(lines, None, [emitted_cfg], fix)
            r.transitions += 2
            if a != b:
                what = "outcome" if a[0] != b[0] or a[0] != "ok" else ("violations" if a[1] != b[1] else "fixed_text" if a[2] != b[2] else "exit_status")
                det = {}
                if what == "violations":
                    det = {"only_with_stack": [v for v in a[1] if v not in b[1]][:3], "only_with_emitted": [v for v in b[1] if v not in a[1]][:3]}
                elif what == "outcome":
                    det = {"stack": str(a)[:300], "emitted": str(b)[:300]}
                rules = sorted({v[0] for v in det.get("only_with_stack", []) + det.get("only_with_emitted", [])})
                r.violations.append({"key": ("emitted_configuration_behaves_differently", item["shape"], what, ",".join(rules)[:50]), "detail": dict(det, seed=sid, fix=fix), "item": strip})
                return r
    if item["shape"] in ("k1", "two_files") and r.sample is None and item["id"].endswith("0"):
        r.sample = {"id": item["id"], "style": style, "cfgs": cfgs, "bytes": len(oc1), "seeds_compared": list(item.get("seeds", ()))[:3]}
    return r


def reproduce(item):
    return {report.key_str(v["key"]) for v in execute(item).violations}


def items(tier):
    inv = configs_k1.inventory()
    out = []
    sq = corpus.small_slice(max_lines=25)
    probe = sq[:: max(1, len(sq) // (6 if tier == "quick" else 30))]
    rules = sorted(inv)
    n = 0

    def add(shape, style, cfgs, seeds=(), rc=(), **kw):
        nonlocal n
        out.append(dict({"id": f"{shape}/{n}", "shape": shape, "style": style, "cfgs": cfgs, "seeds": list(seeds), "rc_rules": list(rc)}, **kw))
        n += 1

    for st in universe.K0:
        allseeds = corpus.seed_ids(("fix", "cls")) if tier != "quick" else corpus.seed_ids(("fix",))[::8]
        allrc = rules if tier != "quick" else rules[::12]
        n_parts = max(1, len(allseeds) // 30)
        for k in range(n_parts):  # split so that the work is spread over the workers; every part repeats the round trip itself
            add("style_only", st, [], seeds=allseeds[k::n_parts], rc=allrc[k::n_parts])
    # one representative rule per option name, every documented value
    seen = set()
    for rid in rules:
        for opt in inv[rid]["options"]:
            if opt in seen and tier == "quick":
                continue
            if (opt, tuple(sorted(map(str, configs_k1.values_for(rid, opt))))) in seen:
                continue
            seen.add(opt)
            seen.add((opt, tuple(sorted(map(str, configs_k1.values_for(rid, opt))))))
            fx = configs_k1.fixture_of(rid)
            for v in configs_k1.values_for(rid, opt):
                en = {"disable": False} if inv[rid]["disable"] else {}
                for st in ((None,) if tier == "quick" else (None, "jcl")):
                    add("k1", st, [{"rule": {rid: dict(en, **{opt: v})}}], seeds=[fx] if fx else [], rc=[rid])
    # list-valued options with a value taken from the rule's own fixture (so that the option is in play and the order of its elements matters)
    seenm = set()
    for rid in rules:
        fx = configs_k1.fixture_of(rid)
        if not fx:
            continue
        for name, cfg in configs_k1.matching_list_values(rid, fx):
            opt = name.split(".", 1)[1].split("~")[0]
            if tier == "quick" and opt in seenm:
                continue
            seenm.add(opt)
            add("k1_fixture_value", None, [cfg], seeds=[fx], rc=[rid])
    # generic attributes at each level
    gen = {"disable": [True, False], "fixable": [False], "severity": ["Warning"], "phase": [2, 6], "indent_size": [4], "indent_style": ["smart_tabs"], "user_error_message": ["see the style guide"]}
    rep = [r for r in ("entity_004", "port_007", "process_016", "signal_007", "length_001") if r in inv]
    for attr, vals in gen.items():
        for v in vals:
            add("generic_global", None, [{"rule": {"global": {attr: v}}}], seeds=probe[:3], rc=rep[:2])
            for g in ("case", "whitespace", "structure", "indent", "alignment", "blank_line", "naming", "length", "case::keyword", "structure::optional"):
                if tier == "quick" and g not in ("case", "indent"):
                    continue
                add("generic_group", None, [{"rule": {"group": {g: {attr: v}}}}], seeds=probe[:3], rc=rep[:2])
            for rid in rep:
                fx = configs_k1.fixture_of(rid)
                add("generic_rule", "jcl" if attr == "disable" else None, [{"rule": {rid: {attr: v}}}], seeds=[fx] if fx else [], rc=[rid])
    # two-file stacks
    for rid in rep:
        add("two_files", None, [{"rule": {rid: {"disable": True}, "global": {"indent_size": 2}}}, {"rule": {rid: {"disable": False, "indent_size": 4}}}], seeds=[configs_k1.fixture_of(rid)], rc=[rid])
        add("two_files", "jcl", [{"rule": {rid: {"fixable": False}}}, {"rule": {rid: {"phase": 3}}}], seeds=[configs_k1.fixture_of(rid)], rc=[rid])
    # other top-level keys
    add("indent", None, [{"indent": {"tokens": {"process_statement": {"begin_keyword": {"token": "current", "after": "+2"}}}}}], seeds=[s for s in sq if "process" in s][:4])
    add("pragma", None, [{"pragma": {"patterns": {"single": ["^\\s*--\\s+mytool\\s+\\w+\\s*$"], "open": [], "close": []}}}], seeds=probe[:3])
    add("user_severity", None, [{"severity": {"Todo": {"type": "error"}, "Future": {"type": "warning"}}}, {"rule": {"entity_004": {"severity": "Future"}, "port_007": {"severity": "Todo"}}}],
        seeds=[configs_k1.fixture_of("entity_004"), configs_k1.fixture_of("port_007")], rc=["entity_004"])
    add("skip_phase", None, [{"skip_phase": [2, 6]}], seeds=probe[:4])
    add("user_severity_shadows_builtin", None, [{"severity": {"Warning": {"type": "error"}}}], seeds=[s for s in ("fix/length/rule_001", "fix/length/rule_003") if s in corpus.manifest()["by_id"]] + probe[:2])
    add("user_severity_shadows_builtin", None, [{"severity": {"Error": {"type": "warning"}}}, {"rule": {"entity_004": {"severity": "Error"}}}], seeds=[configs_k1.fixture_of("entity_004")] + probe[:1])
    # options given at the global level (they reach every rule that can be configured with them): values taken from the seed itself
    import re as _re

    caseseeds = [s for s in corpus.seed_ids(("fix",)) if s.endswith(("rule_500", "rule_501", "rule_502", "rule_600", "rule_601"))]
    for s in (caseseeds[::9] if tier == "quick" else caseseeds[::2]):
        words = sorted({w for l in corpus.lines_of(s) for w in _re.findall(r"[A-Za-z_][A-Za-z0-9_]{2,}", l.split("--")[0]) if w.lower() != w})[:6]
        if not words:
            continue
        add("global_option", None, [{"rule": {"global": {"case_exceptions": words}}}], seeds=[s])
        add("global_option", None, [{"rule": {"global": {"prefix_exceptions": [w[:2] for w in words[:3]], "suffix_exceptions": [w[-2:] for w in words[:3]]}}}], seeds=[s])
        add("global_option", None, [{"rule": {"global": {"exceptions": [words[0]], "style": "no_blank_line", "number_of_spaces": 2}}}], seeds=[s])
    add("linesep", None, [{"linesep": "\r\n"}], seeds=probe[:2])
    add("debug_key", "indent_only", [{"rule": {"global": {"indent_size": 3}}}], seeds=probe[:3])
    for it in out:
        it["seeds"] = [s for s in it["seeds"] if s]
    return out


def main(tier):
    t0 = time.time()
    its = items(tier)
    m = explore.run(its, execute, horizon=1800.0, label=PROP, chunk=1)
    from collections import Counter

    shapes = Counter(i["shape"] for i in its)
    return report.finish(
        PROP, tier, "exploration", [m], t0,
        "configuration stacks: each style alone; every documented value of every option name on a representative rule; generic attributes at global / group / rule level; two-file stacks; indent, pragma, "
        "user severity, skip_phase, linesep keys. For each: oc1 = real main -oc under the stack; oc2 = real main -oc under -c oc1 with no style; oc2 == oc1 byte for byte; -rc fragments under both equal "
        "the oc1 entry; for the listed seeds the all-phases violations, the fixed text and the exit status under -c oc1 equal those under the stack (real apply_rules); non-trivial = stacks emitted",
        ["stacks are listed, not all combinations: one deviation per stack on top of each style (the four-level lattice itself is C12)"],
        extra_cov={"stacks_by_shape": dict(shapes)},
        reproduce=reproduce,
        technique="bounded-exhaustive enumeration of configuration stacks; round-trip and behavioural differential through the real CLI entry points",
    )
