"""C04 — reading is lossless and a clean file is never rewritten.
A: exhaustive enumeration of all strings up to a length bound over the delimiter alphabet through tokens.create;
B: parse/emit identity on every layout variant; C: clean files (and any run without --fix) leave content, inode,
mtime and mode untouched."""
import itertools
import os
import time

from vsg import parser, tokens

from .. import base, corpus, drivers, explore, layout, report, universe
from . import common

PROP = "C04"
SIGMA = ["a", "1", "e", "x", "b", "#", "_", ".", '"', "'", "\\", " ", "\t", "-", "/", "*", "=", "<", ">", "?", ":", "(", ")", ";", "&", "|", ",", "+"]
SIGMA_T = SIGMA + ["[", "]"]
CORE = ["a", "1", "e", '"', "'", "\\", " ", "-", "/", "*", "=", "<", ">", "?", ":", "(", "x", ")", ",", ";"]
KB = tuple(k for k in layout.ALL_OPS if k not in ("UP", "LO", "CAP", "UPI", "ALLUP", "ALLLO", "ALLJ"))


# ---------------------------------------------------------------- A
def exec_tok(item):
    r = explore.Result()
    alpha = item["alpha"]
    pre = item["prefix"]
    n = 0
    bad = None
    for L in range(0, item["maxlen"] - len(pre) + 1):
        if item.get("exact") and len(pre) + L != item["maxlen"]:
            continue
        for tail in itertools.product(alpha, repeat=L):
            s = pre + "".join(tail)
            n += 1
            try:
                toks = tokens.create(s)
                ok = "".join(toks) == s
            except explore.Timeout:
                raise
            except Exception as e:  # noqa
                ok = False
                toks = f"{type(e).__name__}: {e}"
            if not ok and bad is None:
                bad = (s, toks)
    r.transitions = n
    r.extra["strings"] = n
    r.states = set()
    r.nontrivial = item["id"]
    if bad is not None:
        kind = "tokenizer_raises" if isinstance(bad[1], str) else "tokens_do_not_concatenate_to_input"
        r.violations.append({"key": ("tokenize", kind), "detail": {"string": bad[0], "tokens": bad[1]}, "item": dict(item, witness=bad[0])})
    if pre in ("--", '"a'):
        r.sample = {"id": item["id"], "example": pre + "1 <", "tokens": tokens.create(pre + "1 <")}
    return r


def tok_items(tier):
    out = []
    if tier == "quick":
        # every string of length <= 5 over SIGMA: prefixes of length 2 (+ the shorter strings once)
        out.append({"id": "tok/len<=1", "alpha": SIGMA, "prefix": "", "maxlen": 1})
        for a in SIGMA:
            for b in SIGMA:
                out.append({"id": f"tok/{a + b!r}*", "alpha": SIGMA, "prefix": a + b, "maxlen": 5})
    else:
        out.append({"id": "tok/len<=1", "alpha": SIGMA_T, "prefix": "", "maxlen": 1})
        for a in SIGMA_T:
            for b in SIGMA_T:
                out.append({"id": f"tok/{a + b!r}*", "alpha": SIGMA_T, "prefix": a + b, "maxlen": 5})
        for a in CORE:
            for b in CORE:
                out.append({"id": f"tok6/{a + b!r}*", "alpha": CORE, "prefix": a + b, "maxlen": 6, "exact": True})
    return out


# ---------------------------------------------------------------- B
def exec_parse(item):
    r = explore.Result()
    lines = universe.materialise(item)
    if item.get("ctrl"):
        lines = list(lines)
        lines.insert(min(2, len(lines)), "-- page" + item["ctrl"] + "break")
    r.transitions = 1
    # the lines VSG reads from a real file (the product's own reader) are the lines of the file
    from vsg.vhdlFile import utils as _vu

    fp = os.path.join(drivers.scratch(), "read.vhd")
    with open(fp, "w", encoding="utf-8", newline="\n") as f:
        f.write("\n".join(lines) + "\n")
    got, err = _vu.read_vhdlfile(fp)
    if err is not None or got != lines:
        n = min(len(got), len(lines))
        i = next((k for k in range(n) if got[k] != lines[k]), n)
        r.violations.append({"key": ("read", "lines_read_differ_from_lines_of_the_file"), "detail": {"line": i + 1, "file": lines[i] if i < len(lines) else None, "read": got[i] if i < len(got) else None,
                                                                                                  "lines_in_file": len(lines), "lines_read": len(got)}, "item": common.strip_item(item)})
        return r
    try:
        o = base.parse(got)
    except explore.Timeout:
        raise
    except Exception as e:  # noqa
        r.notes.append(("blocked_by", "C05 variant rejected by the classifier"))
        return r
    r.nontrivial = item["id"]
    out = o.get_lines()[1:]
    if out != lines:
        n = min(len(out), len(lines))
        i = next((k for k in range(n) if out[k] != lines[k]), n)
        r.violations.append({"key": ("parse_emit", "emitted_lines_differ_from_lines_read"), "detail": {"line": i + 1, "read": lines[i] if i < len(lines) else None, "emitted": out[i] if i < len(out) else None},
                             "item": common.strip_item(item)})
    ncr = 0
    raw = None
    for t in o.lAllObjects:
        if type(t) is parser.item and raw is None:
            raw = t.value
        if isinstance(t, parser.carriage_return):
            ncr += 1
    if raw is not None:
        sep = any(o[0] in ("WFF", "WNB") for o in item.get("ops", ()))
        r.violations.append({"key": ("parse_emit", "unclassified_token_left", "form_feed_or_nbsp_used_as_separator" if sep else repr(raw)[:12]), "detail": {"value": raw}, "item": common.strip_item(item)})
    if ncr != len(lines):
        r.violations.append({"key": ("parse_emit", "line_break_tokens_differ_from_line_count"), "detail": {"lines": len(lines), "carriage_returns": ncr}, "item": common.strip_item(item)})
    r.states = {base.h64(lines)}
    return r


# ---------------------------------------------------------------- C
def _stat(path):
    st = os.stat(path)
    with open(path, "rb") as f:
        data = f.read()
    return (st.st_ino, st.st_mtime_ns, st.st_mode, data)


def exec_clean(item):
    r = explore.Result()
    ex = common.run_item(item, [], PROP)  # y = fix_c(x)
    if ex.outcome != "ok" or ex.final_lines is None:
        r.notes += common.to_result(ex, PROP).notes
        return r
    y = ex.final_lines
    d = drivers.scratch()
    path = os.path.join(d, "clean.vhd")
    style = ["--style", item["style"]] if item.get("style") else []

    def fresh():
        for f in os.listdir(d):
            if f.startswith("clean.vhd"):
                os.remove(os.path.join(d, f))
        with open(path, "w", newline="\n") as f:
            f.write("\n".join(y) + "\n")
        os.chmod(path, 0o640)
        os.utime(path, ns=(1_500_000_000_000_000_000, 1_500_000_000_000_000_000))
        return _stat(path)

    def leftovers():
        return sorted(f for f in os.listdir(d) if f.startswith("clean.vhd") and f != "clean.vhd")

    s0 = fresh()
    # any run without --fix leaves the file untouched, clean or not
    for extra in ([], ["-ap"]):
        st, so, se, exc = drivers.d_main(["-f", path, "-p", "1"] + style + extra)
        r.transitions += 1
        if _stat(path) != s0 or leftovers():
            r.violations.append({"key": ("run_without_fix_touched_the_file", " ".join(extra)), "detail": {"leftovers": leftovers()}, "item": common.strip_item(item)})
            return r
    clean = exc is None and st == 0 and "Total Violations:    0" in so
    nofix = False
    if not clean and exc is None:
        # "no fixable violations": everything the all-phases check still reports comes from rules that are marked unfixable,
        # configured fixable: false, or carry a non-error severity
        from vsg import severity as _sev

        ex2 = drivers.d_pipe(dict(common.strip_item(item), lines=y, ops=[]), [], fix=False, extra_argv=["-ap"])
        if ex2.outcome == "ok" and ex2.rl is not None:
            rep = [q for q in ex2.rl.rules if q.violations]
            nofix = bool(rep) and all((not q.fixable) or q.severity.type != _sev.error_type for q in rep)
    if not clean and not nofix:
        r.extra["not_clean"] = 1
        return r
    if nofix:
        r.extra["only_unfixable"] = 1
    r.nontrivial = item["id"]
    for extra in ([], ["--backup"], ["--force_fix"]) if clean else ([], ["--backup"]):
        s0 = fresh()
        st, so, se, exc = drivers.d_main(["-f", path, "-p", "1", "--fix"] + style + extra)
        r.transitions += 1
        s1 = _stat(path)
        if s1 != s0:
            what = "content" if s1[3] != s0[3] else "inode" if s1[0] != s0[0] else "mtime" if s1[1] != s0[1] else "mode"
            r.violations.append({"key": ("fix_on_clean_file_touched_the_file" if clean else "fix_on_file_with_only_unfixable_violations_touched_the_file", what), "detail": {"args": extra}, "item": common.strip_item(item)})
            return r
        lo = [f for f in leftovers() if not (extra and f == "clean.vhd.bak")]
        if lo:
            r.violations.append({"key": ("fix_on_clean_file_left_files_behind", ",".join(x[9:] for x in lo)), "detail": {}, "item": common.strip_item(item)})
            return r
    r.sample = {"id": item["id"], "mode": "clean file: --fix, --fix --backup, plain and -ap runs leave inode/mtime/mode/bytes unchanged", "lines": len(y)}
    return r


def execute(item):
    if "alpha" in item:
        return exec_tok(item)
    if item.get("mode") == "clean":
        return exec_clean(item)
    return exec_parse(item)


def reproduce(item):
    return {report.key_str(v["key"]) for v in execute(item).violations}


def main(tier):
    t0 = time.time()
    ta = tok_items(tier)
    seeds = corpus.seed_ids(("fix", "cls", "gen", "big"))
    pb = universe.zero_dev(seeds, styles=(None,)) + universe.one_dev(seeds, ("ALLJ",))
    if tier == "quick":
        pb += universe.one_dev(corpus.small_slice(max_lines=25), KB)
    else:
        pb += universe.one_dev(corpus.small_slice(), KB) + universe.one_dev(corpus.seed_ids(("fix", "cls")), ("NL", "CE", "J")) + universe.one_dev(corpus.seed_ids(("gen",)), ("WT", "TW", "J"))
    for sid in [s for s in corpus.small_slice(max_lines=25) if s.startswith("fix/")][:: (6 if tier == "quick" else 1)]:
        for ch in ("\x0c", "\x0b", "\x1c", "\x1d", "\x1e", "\x85", "\u2028", "\u2029"):
            pb.append(dict(universe.mk(sid), ctrl=ch, id=f"{sid}#ctrl{ord(ch):x}"))
    pc = [dict(it, mode="clean") for it in universe.zero_dev(corpus.seed_ids(("fix", "cls", "gen")), styles=(None,) if tier == "quick" else universe.K0)]
    m1 = explore.run(ta, execute, horizon=600.0, label=PROP + "a", chunk=2)
    m2 = explore.run(pb, execute, horizon=30.0, label=PROP + "b", chunk=32)
    m3 = explore.run(pc, execute, horizon=120.0, label=PROP + "c")
    strings = m1.extra.get("strings", 0)
    return report.finish(
        PROP, tier, "exploration", [m1, m2, m3], t0,
        "A: every string over the " + str(len(SIGMA if tier == "quick" else SIGMA_T)) + "-symbol alphabet " + "".join(SIGMA if tier == "quick" else SIGMA_T).replace("\t", "\\t") + " up to length 5" + ("" if tier == "quick" else ", plus every string of length 6 over the " + str(len(CORE)) + "-symbol core " + "".join(CORE))
        + " through tokens.create (join == input, no exception); B: every variant is written to a file and read with the product's reader (lines read == lines of the file, also with FF, VT, FS, GS, RS, NEL, LS, PS inside a comment), "
        "then vhdlFile(lines).get_lines() == lines, no unclassified token, one line-break token per line; "
        "C: for y = fix_c(x) of every seed, plain and -ap runs never touch the file, and if y is violation-free --fix, --fix --backup and --fix --force_fix leave inode, mtime, mode and bytes unchanged, as do --fix and --fix --backup if all that y still reports comes from unfixable / fixable:false / non-error rules; "
        "non-trivial = tokenizer prefix classes, accepted variants, clean files",
        ["the alphabet is chosen to reach every branch of the nine tokenizer passes; strings outside it are not explored", "clean = the all-phases report of y shows zero violations"],
        extra_cov={"strings_tokenized": strings, "variants_parsed": m2.evaluations, "files_for_clean_check": m3.evaluations, "clean_files": len(m3.nontrivial),
                   "not_clean_after_fix": m3.extra.get("not_clean", 0), "files_with_only_unfixable_violations": m3.extra.get("only_unfixable", 0)},
        exhaustive=True,
        reproduce=reproduce,
        technique="exhaustive enumeration of all strings up to a length bound (tokenizer) and of all single layout deviations (parser), against the real code",
    )
