"""C08 — what VSG writes is what it would read: the written text is accepted, a fresh parse of it has the
same tokens, roles and indentation levels as the model the fix run ended with, and the report printed after
fixing equals the report of a fresh check of the written file."""
import time

from vsg import parser

from .. import base, drivers, explore, report, universe
from . import common

PROP = "C08"
KQ = ("NL", "CE", "J", "CEG")
KT = KQ + ('NLI', 'CO')
_SKIP = (parser.whitespace, parser.carriage_return, parser.blank_line)


def sig(tokens):
    return [(base.role(t), t.value, t.indent) for t in tokens if not isinstance(t, _SKIP) and t.value != ""]


def compare(model_tokens, lines, dIndent):
    """returns None if equal, else (kind, detail)"""
    try:
        p = base.parse(lines)
    except Exception as e:  # noqa
        return "output_rejected", {"error": f"{type(e).__name__}: {str(getattr(e, 'message', e))[:160]}"}
    p.set_indent_map(dIndent)
    a, b = sig(model_tokens), sig(p.lAllObjects)
    n = min(len(a), len(b))
    for i in range(n):
        if a[i] != b[i]:
            if a[i][1] != b[i][1]:
                return "tokens_differ", {"model": a[i][:2], "reread": b[i][:2], "context": [x[1] for x in a[max(0, i - 3) : i + 3]]}
            if a[i][0] != b[i][0]:
                return "roles_differ", {"token": a[i][1], "model_role": a[i][0], "reread_role": b[i][0], "context": [x[1] for x in a[max(0, i - 3) : i + 3]]}
            return "indent_differs", {"token": a[i][1], "role": a[i][0], "model_indent": a[i][2], "reread_indent": b[i][2]}
    if len(a) != len(b):
        return "token_count_differs", {"model": len(a), "reread": len(b)}
    return None


class Locate(drivers.Monitor):
    """second pass, only after a failure: finds the first transition after which the model no longer re-reads as itself"""

    def __init__(self, kind):
        self.kind = kind
        self.culprit = None

    def _probe(self, ex, who):
        if self.culprit is not None:
            return
        f2 = drivers.clone_file(ex.oFile)
        f2.set_token_indent()
        c = compare(f2.lAllObjects, f2.get_lines()[1:], ex.oConfig.dIndent)
        if c is not None and c[0] == self.kind:
            self.culprit = who

    def after_fix(self, ex, rule, before, after, changed):
        if changed:
            self._probe(ex, rule.unique_id)

    def on_system(self, ex, name, before, after, changed):
        if changed:
            self._probe(ex, "<" + name + ">")


def execute(item):
    ex = common.run_item(item, [], PROP)
    r = common.to_result(ex, PROP)
    if ex.outcome != "ok" or ex.rl is None:
        return r
    written = ex.rl.had_violations
    r.nontrivial = item["id"] if ex.effective else None
    if not ex.effective:
        return r
    ex.oFile.set_token_indent()
    lines = ex.oFile.get_lines()[1:]
    if written and ex.final_lines != lines:
        r.violations.append({"key": ("<write_back>", "written_bytes_differ_from_emitted_model"), "detail": {}, "item": common.strip_item(item)})
        return r
    c = compare(ex.oFile.lAllObjects, lines, ex.oConfig.dIndent)
    if c is not None:
        kind, detail = c
        loc = Locate(kind)
        common.run_item(item, [loc], PROP)
        culprit = loc.culprit or "<initial parse>"
        r.violations.append({"key": (culprit, kind), "detail": detail, "item": common.strip_item(item)})
        return r
    # (c) the report printed at the end of the --fix run == the report of a fresh check of the written file
    it2 = dict(item)
    it2["lines"] = lines
    it2.pop("ops", None)
    ex2 = drivers.d_pipe(it2, [], fix=False)
    rep1 = ex.result[3] if ex.result else None
    rep2 = ex2.result[3] if ex2.result else None
    if ex2.outcome != "ok":
        r.notes.append(("blocked_by", "C19 " + common.exc_key(ex2) if ex2.exception else "C08 recheck " + ex2.outcome))
    elif rep1 != rep2:
        l1 = [x for x in (rep1 or "").split("\n") if " | " in x and not x.startswith("  Rule ")]
        l2 = [x for x in (rep2 or "").split("\n") if " | " in x and not x.startswith("  Rule ")]
        d = [x for x in l1 if x not in l2][:3] + ["<<>>"] + [x for x in l2 if x not in l1][:3]
        rules = sorted({x.split("|")[0].strip() for x in d if "|" in x})
        r.violations.append({"key": ("report_after_fix_differs_from_fresh_check", rules[0] if rules else "?"), "detail": {"only_after_fix / only_fresh": d}, "item": common.strip_item(item)})
    r.sample = {"id": item["id"], "effective_rules": ex.effective_rules[:6], "tokens_compared": len(ex.oFile.lAllObjects)}
    return r


def reproduce(item):
    return {report.key_str(v["key"]) for v in execute(item).violations}


def main(tier):
    t0 = time.time()
    from .. import docspec

    structure = {r for r, d in docspec.spec().items() if d["group"] == "structure"}
    its = common.pipe_items(tier, KQ, KT, k1=True, k1_rules=structure) + common.k2_items(tier, indent=True, case=True)
    m = explore.run(its, execute, horizon=120.0, label=PROP)
    return report.finish(
        PROP, tier, "model_checking", [m], t0,
        "one execution = real apply_rules --fix, then (a) the written text is parsed afresh, (b) (role, value, indent) of every non-whitespace token of the final model is compared with the "
        "fresh parse, (c) the report the run printed is compared with the report of a second real apply_rules (no fix) on the written file; on failure the run is repeated with a probe after "
        "every effective transition to name the first transition that breaks re-readability; non-trivial = executions in which the fix changed the model",
        ["whitespace / line-break / blank-line marker tokens are compared through the emitted text only", "set_token_indent is applied to both sides before comparing indentation levels"],
        extra_cov={"bound": common.bound_text(tier, KQ, KT) + "; K2: each single skip_phase / the documented use-clause indent options on the seeds concerned"},
        reproduce=reproduce,
        technique="explicit-state exploration of the fix pipeline; end-state re-parse equivalence and report differential, culprit located by per-transition probing",
    )
