"""Shared by the per-property modules: turning an Exec into an explore.Result, blocked_by bookkeeping."""
from .. import base, explore, universe, drivers


def exc_key(ex):
    e = ex.exception
    if ex.outcome == "timeout":
        return f"hang@{e[1]}"
    return f"exception:{e[0]}@{e[1]}"


def to_result(ex, prop, nontrivial=None, sample=None):
    r = explore.Result()
    r.transitions = ex.transitions
    r.effective = ex.effective
    r.states = ex.states
    r.violations = ex.violations
    if ex.outcome in ("exception", "timeout"):
        if prop != "C19":
            r.notes.append(("blocked_by", "C19 " + exc_key(ex)))
    elif ex.outcome == "rejected":
        if prop not in ("C05", "C19"):
            r.notes.append(("blocked_by", "C05 variant rejected by the classifier"))
    r.nontrivial = nontrivial
    r.sample = sample
    return r


def run_item(item, monitors, prop, want_toi=False, fix=True):
    it = dict(item)
    it["lines"] = universe.materialise(item)
    ex = drivers.d_pipe(it, monitors, want_toi=want_toi, fix=fix)
    return ex


def strip_item(item):
    return {k: v for k, v in item.items() if k != "lines"}
