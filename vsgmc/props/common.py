"""Shared by the per-property modules: turning an Exec into an explore.Result, blocked_by bookkeeping."""
from .. import base, explore, universe, drivers


def exc_key(ex):
    e = ex.exception
    if ex.outcome == "timeout":
        return f"hang@{e[1]}"
    return f"exception:{e[0]}@{e[1]}"


def to_result(ex, prop, nontrivial=None, sample=None):
    r = explore.Result()
    r.transitions = ex.transitions
    r.effective = ex.effective
    r.states = ex.states
    r.violations = ex.violations
    if ex.outcome in ("exception", "timeout"):
        if prop != "C19":
            r.notes.append(("blocked_by", "C19 " + exc_key(ex)))
    elif ex.outcome == "rejected":
        if prop not in ("C05", "C19"):
            r.notes.append(("blocked_by", "C05 variant rejected by the classifier"))
    r.nontrivial = nontrivial
    r.sample = sample
    return r


def run_item(item, monitors, prop, want_toi=False, fix=True):
    it = dict(item)
    it["lines"] = universe.materialise(item)
    ex = drivers.d_pipe(it, monitors, want_toi=want_toi, fix=fix)
    return ex


def strip_item(item):
    return {k: v for k, v in item.items() if k != "lines"}


_focus = None


def focus_spec():
    """specs/focus_lines.json (tools/focus_lines.py): rule id -> its fixture and the lines it reports on there (pinned tree)"""
    global _focus
    if _focus is None:
        import json
        import os

        p = os.path.join(base.VERIF, "specs", "focus_lines.json")
        _focus = json.load(open(p)) if os.path.exists(p) else {}
    return _focus


def focus_items(tier, kinds, rules=None):
    """rule-focused slice F (DESIGN §5): for the fixture of each rule X, one layout deviation on the lines X itself reports on
    (the first reported line; the thorough tier applies its wider operator list there), X enabled if it is disabled by default"""
    from .. import corpus

    maxl, pad = (1, 0)  # (two reported lines in the thorough tier were dropped: the tier could not be calibrated within the session)
    have = set(corpus.seed_ids(("fix",)))
    out = []
    for rid in sorted(focus_spec()):
        v = focus_spec()[rid]
        if v["seed"] not in have or (rules is not None and rid not in rules):
            continue
        cfg = {"rule": {rid: {"disable": False}}} if v["enable"] else None
        for it in universe.focused([(v["seed"], v["lines"][:maxl])], kinds, pad=pad):
            if cfg:
                it["cfg"] = cfg
                it["cfgname"] = f"{rid}.disable=false"
                it["id"] += f"%cfg:{rid}.disable=false"
            it["focus"] = rid
            out.append(it)
    return out


def all_on_cfg():
    from . import configs_k1

    return {"rule": {rid: {"disable": False} for rid, v in sorted(configs_k1.inventory().items()) if v["disable"]}}


def family_pair_items():
    """two optional (disabled by default), fixable rules of one rule family enabled together, on every fixture of that family and on the single-construct generated designs: the
    smallest configuration in which, for instance, after_001 (phase 1) and after_002 (phase 5) meet in one run without the other
    optional rules interfering"""
    import itertools

    from .. import corpus, gen
    from . import configs_k1

    inv = configs_k1.inventory()
    fam = {}
    for rid, v in sorted(inv.items()):
        if v["disable"] and v["fixable"] and v["phase"] < 7:
            fam.setdefault(rid.rsplit("_", 1)[0], []).append(rid)
    out = []
    fixs = corpus.seed_ids(("fix",))
    for f, rs in sorted(fam.items()):
        seeds = [s for s in fixs if s.split("/")[1] == f] + gen.ids(single_only=True)
        for a, b in itertools.combinations(sorted(rs), 2):
            for s in seeds:
                out.append(universe.mk(s, (), None, {"rule": {a: {"disable": False}, b: {"disable": False}}}, cfgname=f"{a}+{b}.enable_pair=true"))
    return out


def pipe_items(tier, kinds_q, kinds_t=None, k1=True, k1_rules=None, big=True, gen_thorough_kinds=None, focus=True, all_on=True, focus_extra=(), one_line=False):
    """the shared fix-run universe (DESIGN §5): 0 deviations over all seeds x K0; 1 layout deviation over
    S_q (quick) or all fix/cls/gen seeds (thorough); K1 deviations of each rule on its own fixture."""
    from .. import corpus
    from . import configs_k1

    if tier == "quick":
        out = universe.zero_dev(corpus.seed_ids(("fix", "cls")) + (corpus.seed_ids(("big",)) if big else [])) + universe.zero_dev(corpus.seed_ids(("gen",)), styles=(None, "jcl"))
    else:
        out = universe.zero_dev(corpus.seed_ids(("fix", "cls", "gen")) + (corpus.seed_ids(("big",)) if big else []))
    if all_on:
        # the configuration that switches every optional (disabled by default) rule on: the only one under which rules such as
        # after_001 / after_002 meet inside one phase-ordered run
        out += [universe.mk(s, (), None, all_on_cfg(), cfgname="optional_rules.enable_all=true") for s in corpus.seed_ids(("fix", "cls"))]
    if all_on:
        out += family_pair_items()
    if one_line:
        # the whole design on one line (every comment-free seed): first-line / last-line / no-line-break corner cases of every rule
        out += universe.one_dev(corpus.seed_ids(("fix", "cls", "gen")), ("ALLJ",))
    if tier == "quick":
        out += universe.one_dev(corpus.small_slice(max_lines=25), kinds_q)
        if k1:
            out += configs_k1.items_for_own_fixtures(limit_values=2, rules=k1_rules)
        if focus:
            out += focus_items(tier, tuple(kinds_q) + tuple(k for k in focus_extra if k not in kinds_q), rules=None if focus is True else focus)
    else:
        kt = kinds_t or kinds_q
        out += universe.one_dev(corpus.small_slice(max_lines=25), kinds_q)  # as in the quick tier; the wider operator list kinds_t is applied on the rule-focused slice
        out += universe.one_dev(corpus.seed_ids(("fix", "cls")), wide_kinds(kinds_q, kt))
        if k1:
            out += configs_k1.items_for_own_fixtures(limit_values=None, rules=k1_rules)
        if focus:
            out += focus_items(tier, tuple(kt) + tuple(k for k in focus_extra if k not in kt), rules=None if focus is True else focus)
    return out


def wide_kinds(kinds_q, kinds_t):
    """operators applied to EVERY fix/cls seed in the thorough tier (one position per line, not one per gap)"""
    return []  # (the per-line operators over every fixture were dropped to keep a thorough run near ten minutes)


def bound_text(tier, kinds_q, kinds_t=None, focus_extra=()):
    z = "every optional rule enabled x all fix/cls seeds, each pair of optional fixable rules of one family enabled x the fixtures of that family and the generated singles; 0 deviations: all fix/cls/gen seeds (" + str(len(__import__("vsgmc.corpus", fromlist=["x"]).seed_ids(("fix", "cls", "gen")))) + ") + 23 large examples x {default, jcl, indent_only}" + (" (generated seeds: default and jcl only)" if tier == "quick" else "")
    if tier == "quick":
        d = "1 layout deviation (" + ",".join(kinds_q) + ") at every applicable position of the small-seed slice S_q (<=25 lines, 176 seeds)"
        k = "1 configuration deviation (documented option values, first 2 per option) of each rule on its own fixture"
    else:
        w = wide_kinds(kinds_q, kinds_t or kinds_q)
        d = "1 layout deviation (" + ",".join(kinds_q) + ") at every applicable position of the small-seed slice S_q (<=25 lines, 176 seeds)"
        k = "1 configuration deviation (every documented option value) of each rule on its own fixture"
    f = ("rule-focused slice F: the operators (" + ",".join(tuple(kinds_q if tier == "quick" else (kinds_t or kinds_q)) + tuple(focus_extra)) + ") on the line(s) each rule reports on in its own fixture (" + "first reported line" + ", " + str(len(focus_spec())) + " rules)")
    return z + "; " + d + "; " + f + "; " + k


def k2_items(tier, skip=True, indent=True, case=False, prereq=False):
    """K2: single deviations of the top-level configuration keys that steer the pipeline itself: skip_phase (each single phase)
    and the documented indent options of use clauses (docs/configuring_use_clause_indenting.rst), on seeds where they matter"""
    from .. import corpus

    out = []
    fixs = corpus.seed_ids(("fix", "cls"))
    if skip:
        for s in (fixs[::3] if tier == "quick" else fixs):
            for ph in range(1, 7):
                out.append(universe.mk(s, (), None, {"skip_phase": [ph]}, cfgname=f"skip_phase={ph}"))
    if prereq:
        # the prerequisite mechanism of rule_list.fix (docs/phases.rst, rule_list.enforce_prerequisites): each rule that another rule
        # names as its prerequisite, disabled - the dependent rule must still end up after whatever it has to follow
        from vsg import rule_list as _rl, vhdlFile as _vf
        import contextlib, io

        with contextlib.redirect_stdout(io.StringIO()):
            rl = _rl.rule_list(_vf.vhdlFile([""]), None)
        pre = sorted({p.unique_id for r in rl.rules if not r.deprecated for p in r.prerequisites})
        seeds = [s for s in corpus.seed_ids(("fix", "cls", "big")) if any(":=" in l for l in corpus.lines_of(s))]
        for s in seeds:
            for p in pre:
                out.append(universe.mk(s, (), None, {"rule": {p: {"disable": True}}}, cfgname=f"{p}.disable=true"))
    if indent:
        users = [s for s in corpus.seed_ids(("fix", "cls", "big")) if any(l.strip().lower().startswith("use ") for l in corpus.lines_of(s))]
        for s in (users[::2] if tier == "quick" else users):
            for opt in ("token_if_no_matching_library_clause", "token_after_library_clause"):
                for val in ("current", "+2"):
                    cfg = {"indent": {"tokens": {"use_clause": {"keyword": {opt: val}}}}}
                    out.append(universe.mk(s, (), None, cfg, cfgname=f"indent.use_clause.{opt}={val}"))
                    if case:
                        # configuration deviation x whole-file case deviation (2 deviations): the indent map is consulted with token
                        # values as they stand in the input, the case rules run two phases later
                        out.append(universe.mk(s, (("ALLUP", 0, 0),), None, cfg, cfgname=f"indent.use_clause.{opt}={val}"))
                        # ... and the library name spelled differently in the library clause and in the use clause
                        for op in universe.seedinfo(s).ops(("UPI",)):
                            if corpus.lines_of(s)[op[1]].strip().lower().startswith(("library ", "use ")):
                                out.append(universe.mk(s, (op,), None, cfg, cfgname=f"indent.use_clause.{opt}={val}"))
    return out
