"""C12 — configuration is obeyed with the documented precedence.
(1) lattice: for every live rule and every configurable attribute, all 3^4 assignments {unset, v1, v2} to
(global, group, rule, per-file) through the real configure path, effective value against the reference model;
all splits of two entries over two configuration files in both orders through the real merge;
(2) behavioural agreement of a layered configuration with the single rule-level configuration of the effective value;
(3) unknown and deprecated rule ids are configuration errors."""
import contextlib
import copy
import io
import itertools
import json
import os
import time

from vsg import apply_rules as _ar
from vsg import config as _config
from vsg import rule_list, severity, vhdlFile

from .. import base, corpus, drivers, explore, report, universe
from . import common, configs_k1

PROP = "C12"
GEN_VALUES = {
    "disable": (True, False), "fixable": (False, True), "phase": (3, 5), "severity": ("Warning", "Error"), "indent_size": (1, 4),
    "indent_style": ("smart_tabs", "spaces"), "user_error_message": ("m1", "m2"),
}
LEVELS = ("global", "group", "rule", "file")
_rl = None
_cfg0 = None
FNAME = "lattice.vhd"


def two_values(rid, attr):
    if attr in GEN_VALUES:
        return GEN_VALUES[attr]
    vals = configs_k1.values_for(rid, attr)
    inv = configs_k1.inventory()[rid]
    d = inv["options"][attr]
    allv = [v for v in vals] + [d]
    if len(allv) < 2:
        return None
    return (allv[0], allv[1])


def _base_objects():
    global _rl, _cfg0
    if _rl is None:
        with contextlib.redirect_stdout(io.StringIO()):
            cla, _cfg0, path = drivers.build_config(None, None, (), lines=[""], name=FNAME)
            _rl = rule_list.rule_list(vhdlFile.vhdlFile([""]), _cfg0.severity_list)
            _rl.oVhdlFile.filename = path
            _rl._classes = {r.unique_id: type(r) for r in _rl.rules}
    return _rl, _cfg0


def build_cfg(rid, group, attr, assign):
    """assign: dict level -> value"""
    cfg = {"rule": {}}
    if "global" in assign:
        cfg["rule"]["global"] = {attr: assign["global"]}
    if "group" in assign:
        cfg["rule"]["group"] = {group: {attr: assign["group"]}}
    if "rule" in assign:
        cfg["rule"][rid] = {attr: assign["rule"]}
    return cfg


def observe(rule, attr):
    v = rule.get_configuration().get(attr)
    acted = rule.severity.name if attr == "severity" else getattr(rule, attr)
    return v, acted


def exec_lattice(item):
    r = explore.Result()
    rl, cfg0 = _base_objects()
    rid = item["rule"]
    cls = rl._classes[rid]
    inv = configs_k1.inventory()[rid]
    path = rl.oVhdlFile.filename
    groups = inv["groups"]
    fired = 0
    for attr in inv["configuration"]:
        tv = two_values(rid, attr)
        if tv is None:
            continue
        default = observe(cls(), attr)[0]
        glist = groups[:1] + (groups[-1:] if len(groups) > 1 else [])
        for group in glist or [None]:
            for combo in itertools.product((None, 0, 1), repeat=4):
                if group is None and combo[1] is not None:
                    continue
                assign = {lvl: tv[c] for lvl, c in zip(LEVELS, combo) if c is not None}
                cfg = build_cfg(rid, group, attr, assign)
                if "file" in assign:
                    cfg["file_rules"] = [{path: {"rule": {rid: {attr: assign["file"]}}}}]
                oc = copy.copy(cfg0)
                oc.dConfig = dict(cfg0.dConfig, **cfg)
                rule = cls()
                rl.rules = [rule]
                r.transitions += 1
                try:
                    _ar.configure_rules(oc, rl, oc.dConfig, 0, path)
                except explore.Timeout:
                    raise
                except Exception as e:  # noqa
                    r.violations.append({"key": ("lattice", f"configure_raises:{type(e).__name__}", attr, "+".join(sorted(assign))), "detail": {"rule": rid, "config": cfg, "message": str(e)[:200]},
                                         "item": dict(item, attr=attr, combo=list(combo), group=group)})
                    continue
                exp = default
                for lvl in LEVELS:  # least to highest priority
                    if lvl in assign:
                        exp = assign[lvl]
                got, acted = observe(rule, attr)
                fired += 1
                if got != exp or acted != exp:
                    winner = [lvl for lvl in LEVELS if lvl in assign][-1] if assign else "default"
                    r.violations.append({"key": ("lattice", "effective_value_is_not_the_highest_priority_one", attr if attr in GEN_VALUES else "option", f"set={'+'.join(sorted(assign))}:expected_from={winner}"),
                                         "detail": {"rule": rid, "attr": attr, "config": cfg, "expected": exp, "reported": got, "acted_on": acted}, "item": dict(item, attr=attr, combo=list(combo), group=group)})
    # a rule that belongs to two groups (case + case::keyword, structure + structure::optional): each group sets a different
    # attribute, so no priority question arises - both must be in force, whichever group is written first in the file
    if len(groups) >= 2:
        g1, g2 = groups[0], groups[-1]
        for attr in inv["configuration"]:
            tv = two_values(rid, attr)
            if tv is None:
                continue
            other = "severity" if attr != "severity" else "fixable"
            if other not in inv["configuration"]:
                continue
            ov = GEN_VALUES[other][0]
            for first, second in ((g1, g2), (g2, g1)):
                for ga, gb in ((g1, g2), (g2, g1)):
                    gcfg = {}
                    for g in (first, second):
                        gcfg[g] = {attr: tv[0]} if g == ga else {other: ov}
                    cfg = {"rule": {"group": gcfg}}
                    oc = copy.copy(cfg0)
                    oc.dConfig = dict(cfg0.dConfig, **cfg)
                    rule = cls()
                    rl.rules = [rule]
                    r.transitions += 1
                    try:
                        _ar.configure_rules(oc, rl, oc.dConfig, 0, path)
                    except explore.Timeout:
                        raise
                    except Exception:  # noqa
                        continue
                    fired += 1
                    if observe(rule, attr) != (tv[0], tv[0]) or observe(rule, other) != (ov, ov):
                        r.violations.append({"key": ("lattice", "attribute_set_through_one_of_two_groups_of_the_rule_is_not_in_force", attr if attr in GEN_VALUES else "option"),
                                             "detail": {"rule": rid, "config": cfg, "observed": {attr: observe(rule, attr), other: observe(rule, other)}}, "item": dict(item, attr=attr, two_groups=[first, second, ga])})
                        break
                else:
                    continue
                break
    # the per-file level with the file named in a non-normalised spelling (the configuration key is matched as written)
    d, b = os.path.split(path)
    for alt in (d + "/./" + b, d + "//" + b, os.path.join(d, "sub", "..", b)):
        for combo in ((None, None, 1, 0), (1, None, None, 0)):
            assign = {lvl: GEN_VALUES["disable"][c] for lvl, c in zip(LEVELS, combo) if c is not None}
            cfg = build_cfg(rid, None, "disable", assign)
            cfg["file_rules"] = [{alt: {"rule": {rid: {"disable": assign["file"]}}}}]
            oc = copy.copy(cfg0)
            oc.dConfig = dict(cfg0.dConfig, **cfg)
            rule = cls()
            rl.rules = [rule]
            r.transitions += 1
            try:
                _ar.configure_rules(oc, rl, oc.dConfig, 0, alt)
            except Exception:  # noqa
                continue
            if rule.disable != assign["file"]:
                r.violations.append({"key": ("lattice", "per_file_entry_ignored_for_non_normalised_file_name", alt[len(d):].replace(b, "F")), "detail": {"rule": rid, "file_name": alt, "config": cfg},
                                     "item": dict(item, attr="disable", alt=alt)})
                break
    r.nontrivial = rid if fired else None
    r.states.add(base.h64(rid))
    if rid.endswith("_001") and rid.startswith("a"):
        r.sample = {"rule": rid, "attributes": inv["configuration"], "assignments_checked": fired}
    return r


def exec_merge(item):
    """two entries split over two configuration files, both orders, through the real config.process_config_file"""
    r = explore.Result()
    rid, a1, a2 = item["rule"], item["a1"], item["a2"]
    v = {a: two_values(rid, a) for a in (a1, a2)}
    if any(x is None for x in v.values()):
        return r
    cases = []
    # same attribute in both files: the later file wins; different attributes: both survive
    for first, second in itertools.permutations([(a1, v[a1][0]), (a2, v[a2][1] if a2 == a1 else v[a2][0])], 2):
        cases.append((first, second))
    for (fa, fv), (sa, sv) in cases:
        d1 = {"rule": {rid: {fa: fv}}}
        d2 = {"rule": {rid: {sa: sv}}}
        style = {"rule": {}}
        merged = _config.process_config_file(copy.deepcopy(style), copy.deepcopy(d1), "f1")
        merged = _config.process_config_file(merged, copy.deepcopy(d2), "f2")
        r.transitions += 1
        eff = merged.get("rule", {}).get(rid, {})
        exp = {fa: fv}
        exp[sa] = sv
        if eff != exp:
            r.violations.append({"key": ("merge", "later_file_drops_attribute_set_by_earlier_file" if fa != sa else "later_file_does_not_override", "same_attr" if fa == sa else "different_attrs"),
                                 "detail": {"file1": d1, "file2": d2, "merged_entry": eff, "expected": exp}, "item": item})
            break
    # the same at the global and at the group level (one level deeper in the file)
    inv = configs_k1.inventory()[rid]
    for level, wrap in (("global", lambda d: {"rule": {"global": d}}), ("group", lambda d: {"rule": {"group": {(inv["groups"] or ["x"])[0]: d}}})):
        d1, d2 = wrap({"disable": True}), wrap({"fixable": False})
        for x, y in ((d1, d2), (d2, d1)):
            merged = _config.process_config_file(copy.deepcopy({"rule": {}}), copy.deepcopy(x), "f1")
            merged = _config.process_config_file(merged, copy.deepcopy(y), "f2")
            r.transitions += 1
            node = merged["rule"]["global"] if level == "global" else merged["rule"]["group"][(inv["groups"] or ["x"])[0]]
            if node != {"disable": True, "fixable": False}:
                r.violations.append({"key": ("merge", "later_file_drops_attribute_set_by_earlier_file", level), "detail": {"file1": x, "file2": y, "merged": merged["rule"]}, "item": item})
                return r
    r.nontrivial = item["id"]
    return r


def exec_behaviour(item):
    """layered configuration against the single rule-level configuration with the effective value"""
    r = explore.Result()
    lines = universe.materialise(item)
    rid, attr, level, val, low = item["rule"], item["attr"], item["level"], item["value"], item["lower"]
    inv = configs_k1.inventory()[rid]
    en = {"disable": False} if inv["disable"] and attr != "disable" else {}
    group = (inv["groups"] or [None])[0]
    d = drivers.scratch()
    path = os.path.join(d, "design.vhd")
    single = {"rule": {rid: dict(en, **{attr: val})}}
    if level == "global":
        layered = {"rule": {"global": {attr: val}, rid: dict(en)}}
    elif level == "group":
        layered = {"rule": {"global": {attr: low}, "group": {group: {attr: val}}, rid: dict(en)}}
    elif level == "rule":
        layered = {"rule": {"global": {attr: low}, rid: dict(en, **{attr: val})}}
        if group:
            layered["rule"]["group"] = {group: {attr: low}}
    else:
        layered = {"rule": {rid: dict(en, **{attr: low})}, "file_rules": [{path: {"rule": {rid: {attr: val}}}}]}
    if not en and level in ("global", "group") and not layered["rule"][rid]:
        del layered["rule"][rid]
    if attr == "severity" and val not in ("Warning", "Error"):
        for c in (single, layered):
            c["severity"] = {"Todo": {"type": "error"}, "Future": {"type": "warning"}}
    obs = []
    wide = level in ("global", "group", "rule")  # the layered configuration sets global/group entries, which touch other rules too: only what concerns `rid` is comparable, in check mode
    for cfg in (single, layered):
        it = dict(item, lines=lines, cfg=cfg)
        it.pop("ops", None)
        jp = os.path.join(d, "junit.xml")
        ex = drivers.d_pipe(it, [], fix=not wide, extra_argv=["--junit", jp] + (["-ap"] if wide else []))
        r.transitions += ex.transitions
        if ex.outcome != "ok" or ex.rl is None:
            if ex.outcome == "exception":
                r.violations.append({"key": ("behaviour", f"exception:{ex.exception[0]}@{ex.exception[1]}", attr, level), "detail": {"config": cfg, "exception": ex.exception}, "item": common.strip_item(item)})
            return r
        me = [x for x in ex.rl.rules if x.unique_id == rid][0]
        V = sorted((x.unique_id, v.get_line_number(), v.get_solution() or "") for x in ex.rl.rules for v in x.violations if not wide or x.unique_id == rid)
        tc = ex.result[1]
        junit = "\n".join(tc.build_junit()) if tc is not None and hasattr(tc, "build_junit") else repr(getattr(tc, "__dict__", None))
        if wide:
            junit = "\n".join(l for l in junit.split("\n") if rid + ":" in l)
        obs.append({"V": V, "text": None if wide else ex.final_lines, "exit": None if wide else bool(ex.result[0]), "junit": junit,
                    "mine": (me.disable, me.fixable, me.severity.name, me.phase, getattr(me, attr) if attr != "severity" else None), "fired": None if wide else rid in ex.effective_rules})
    a, b = obs
    for k in ("mine", "V", "text", "exit", "junit", "fired"):
        if a[k] != b[k]:
            r.violations.append({"key": ("behaviour", f"layered_config_differs_from_single_level_in:{k}", attr if attr in GEN_VALUES else "option", level),
                                 "detail": {"rule": rid, "single": single, "layered": layered, "single_obs": str(a[k])[:200], "layered_obs": str(b[k])[:200]}, "item": common.strip_item(item)})
            break
    # what the effective value means (documented): disable -> silent and never fixes; fixable false -> report only; warning -> no exit status, not in JUnit
    me = a
    if attr == "disable" and val is True and (any(v[0] == rid for v in b["V"]) or b["fired"]):
        r.violations.append({"key": ("behaviour", "disabled_rule_reported_or_fixed", level), "detail": {"layered": layered}, "item": common.strip_item(item)})
    if attr == "fixable" and val is False and b["fired"]:
        r.violations.append({"key": ("behaviour", "fixable_false_rule_fixed", level), "detail": {"layered": layered}, "item": common.strip_item(item)})
    if attr == "severity" and val in ("Warning", "Future") and rid in b["junit"]:
        r.violations.append({"key": ("behaviour", "warning_rule_in_junit", level), "detail": {"layered": layered}, "item": common.strip_item(item)})
    r.nontrivial = item["id"]
    r.states.add(base.h64((rid, attr, level)))
    if level == "file" and attr == "disable" and r.sample is None and rid.startswith("architecture"):
        r.sample = {"id": item["id"], "single": single, "layered": layered, "agree": a == b}
    return r


def exec_error(item):
    r = explore.Result()
    d = drivers.scratch()
    path = os.path.join(d, "err.vhd")
    with open(path, "w") as f:
        f.write("entity e is\nend entity e;\n")
    rid = item["rule"]
    cfg = {"rule": {rid: {"disable": True}}} if item["level"] == "rule" else {"file_rules": [{path: {"rule": {rid: {"disable": True}}}}]} if item["level"] == "file_rules" else \
        {"file_list": [{path: {"rule": {rid: {"disable": True}}}}]}
    if item.get("with_rule_section"):
        # the bad id sits in a per-file section while the top level has an (unrelated, valid) rule section of its own
        cfg.setdefault("rule", {})["global"] = {"indent_size": 2}
    cp = os.path.join(d, "err_cfg.json")
    with open(cp, "w") as f:
        json.dump(cfg, f)
    argv = ["-c", cp, "-p", "1"] + ([] if item["level"] == "file_list" else ["-f", path])
    st, so, se, exc = drivers.d_main(argv)
    r.transitions = 1
    r.nontrivial = item["id"]
    kind = item["kind"]
    if exc is not None:
        r.violations.append({"key": ("error", f"traceback:{exc[0]}@{exc[1]}", kind, item["level"]), "detail": {"rule": rid, "message": exc[2]}, "item": item})
    elif not st:
        r.violations.append({"key": ("error", "bad_rule_id_ignored_exit_0", kind, item["level"] + ("+rule_section" if item.get("with_rule_section") else "")), "detail": {"rule": rid, "stdout": so[:200]}, "item": item})
    elif "ERROR" not in (so + se) and "Error" not in (so + se):
        r.violations.append({"key": ("error", "no_configuration_error_message", kind, item["level"] + ("+rule_section" if item.get("with_rule_section") else "")), "detail": {"rule": rid, "stdout": so[:200], "stderr": se[:200]}, "item": item})
    if kind == "deprecated" and item["level"] == "rule" and rid.startswith("port"):
        r.sample = {"id": item["id"], "exit": st, "message": (so + se).strip().split("\n")[0][:150]}
    return r


def execute(item):
    return {"lattice": exec_lattice, "merge": exec_merge, "behaviour": exec_behaviour, "error": exec_error}[item["part"]](item)


def reproduce(item):
    global _rl
    r = execute(item)
    keys = {report.key_str(v["key"]) for v in r.violations}
    return keys


def items(tier):
    inv = configs_k1.inventory()
    out = []
    for rid in sorted(inv):
        out.append({"id": f"lattice/{rid}", "part": "lattice", "rule": rid})
    rules = sorted(inv)
    for rid in (rules if tier != "quick" else rules[::7]):
        attrs = inv[rid]["configuration"]
        pairs = [("disable", "disable"), ("disable", "fixable")] + ([(attrs[-1], attrs[-1]), (attrs[-1], "disable")] if attrs and attrs[-1] not in GEN_VALUES else [])
        for a1, a2 in pairs:
            out.append({"id": f"merge/{rid}/{a1}+{a2}", "part": "merge", "rule": rid, "a1": a1, "a2": a2})
    fx = [(rid, configs_k1.fixture_of(rid)) for rid in rules]
    fx = [(rid, s) for rid, s in fx if s]
    if tier == "quick":
        fx = fx[::6]
    for rid, sid in fx:
        opts = [o for o in inv[rid]["options"] if configs_k1.values_for(rid, o)]
        todo = [("disable", True, False), ("fixable", False, True), ("severity", "Warning", "Error"), ("severity", "Future", "Todo")]
        if opts:
            vals = configs_k1.values_for(rid, opts[0])
            todo.append((opts[0], vals[0], inv[rid]["options"][opts[0]]))
        for attr, val, low in todo:
            for level in LEVELS:
                if level == "group" and not inv[rid]["groups"]:
                    continue
                if tier == "quick" and level == "rule":
                    continue
                out.append(dict(universe.mk(sid), part="behaviour", rule=rid, attr=attr, level=level, value=val, lower=low, id=f"behaviour/{rid}/{attr}={val}@{level}"))
    # (3) errors
    with contextlib.redirect_stdout(io.StringIO()):
        rl = rule_list.rule_list(vhdlFile.vhdlFile([""]), None)
    dep = sorted(r.unique_id for r in rl.rules if r.deprecated)
    names = sorted({r.name for r in rl.rules})
    existing = {r.unique_id for r in rl.rules}
    bogus = [f"{n}_{k}" for n in names for k in ("999",) if f"{n}_{k}" not in existing] + ["nosuchfamily_001"]
    for lvl in ("rule", "file_rules", "file_list"):
        for rid in dep if tier != "quick" or lvl == "rule" else dep[::4]:
            out.append({"id": f"error/deprecated/{rid}@{lvl}", "part": "error", "rule": rid, "level": lvl, "kind": "deprecated"})
        for rid in bogus if tier != "quick" or lvl == "rule" else bogus[::6]:
            out.append({"id": f"error/unknown/{rid}@{lvl}", "part": "error", "rule": rid, "level": lvl, "kind": "unknown"})
        if lvl != "rule":
            for rid in (bogus if tier != "quick" else bogus[::12]) + (dep if tier != "quick" else dep[::12]):
                out.append({"id": f"error/{'unknown' if rid in bogus else 'deprecated'}/{rid}@{lvl}+rule_section", "part": "error", "rule": rid, "level": lvl, "kind": "unknown" if rid in bogus else "deprecated", "with_rule_section": True})
    return out


def main(tier):
    t0 = time.time()
    its = items(tier)
    m = explore.run(its, execute, horizon=600.0, label=PROP, chunk=4)
    nl = sum(1 for i in its if i["part"] == "lattice")
    return report.finish(
        PROP, tier, "exploration", [m], t0,
        "(1) for every one of the " + str(nl) + " live rules and every attribute in its configurable set: all 81 assignments of {unset, v1, v2} to (global, group, rule, per-file file_rules), for the first and "
        "the last group the rule belongs to (and, for rules in two groups, one attribute through each group in both file orders), through the real apply_rules.configure_rules on a fresh rule object; observed = get_configuration() (what -rc/-oc print) and the attribute the rule acts on; "
        "expected = value at the highest-priority level that sets it; two-file splits in both orders through the real config.process_config_file; (2) layered configuration against the single "
        "rule-level configuration with the effective value on the rule's own fixture through the real apply_rules --fix --junit: rule state, violations, fixed text, exit status, JUnit; "
        "(3) every deprecated id and one unused id per rule family at rule level / file_rules / file_list (per-file levels also next to a valid top-level rule section) through the real main(): configuration error, non-zero exit, no traceback; "
        "non-trivial = rules / cases executed",
        ["values v1, v2 come from the documented domains (specs/option_domains.json) and fixed pairs for the generic attributes", "style level is covered by C17 (styles are configuration files applied first)"],
        extra_cov={"configure_calls": m.transitions},
        reproduce=reproduce,
        technique="exhaustive enumeration of the four-level precedence lattice per rule and attribute on the real configure path against a reference model; differential behaviour runs",
    )
