"""C20 — --fix_only fixes what it lists and nothing else (all selections of (rule, lines) derived from the
all-phases report of each seed, through the real apply_rules with a --fix_only file)."""
import time

from .. import base, corpus, docspec, drivers, explore, report, universe
from . import common

PROP = "C20"
LOCAL = ("whitespace", "indent", "alignment", "case")


class Mon(drivers.Monitor):
    def __init__(self, sel):
        self.sel = sel  # rule -> "all" | set(lines)
        self.bad = None

    def after_fix(self, ex, rule, before, after, changed):
        if self.bad:
            return
        rid = rule.unique_id
        applied = ex.applied or []
        if rid not in self.sel:
            if changed or applied:
                self.bad = ("unlisted_rule_fixed", rid)
            return
        want = self.sel[rid]
        if want != "all":
            extra = sorted({v.get_line_number() for v in applied} - set(want))
            if extra:
                self.bad = ("listed_rule_fixed_unlisted_line", rid, extra[:3])


def run_sel(item, lines, sel, shape=None, cfg=None):
    fo = {"fix": {"rule": {r: (["all"] if v == "all" else (list(v) if isinstance(v, (list, tuple)) else sorted(v))) for r, v in sel.items()}}}
    if shape is not None:
        fo = shape
    it = dict(item, lines=lines, fix_only=fo)
    if cfg is not None:
        it["cfg"] = cfg
    it.pop("ops", None)
    mon = Mon(sel)
    ex = drivers.d_pipe(it, [mon])
    return ex, mon


def changed_lines(a, b):
    if len(a) != len(b):
        return None
    return {i + 1 for i, (x, y) in enumerate(zip(a, b)) if x != y}


def execute(item):
    r = explore.Result()
    lines = universe.materialise(item)
    strip = common.strip_item(item)
    spec = docspec.spec()
    it0 = dict(item, lines=lines)
    ap = drivers.d_pipe(it0, [], fix=False, extra_argv=["-ap"])
    if ap.outcome != "ok" or ap.rl is None:
        r.notes += common.to_result(ap, PROP).notes
        return r
    V = {}
    for rule in ap.rl.rules:
        if rule.violations and rule.fixable:
            V[rule.unique_id] = sorted({v.get_line_number() for v in rule.violations})
    allrules = [x.unique_id for x in ap.rl.rules if not x.deprecated]
    plain = drivers.d_pipe(it0, [])
    if plain.outcome != "ok":
        r.notes += common.to_result(plain, PROP).notes
        return r
    nsel = 0

    def viol(key, detail, sel):
        r.violations.append({"key": key, "detail": dict(detail, selection={k: (v if v == "all" else list(v)) for k, v in list(sel.items())[:4]}), "item": strip})

    # every rule: all  ==  plain --fix
    sel = {x: "all" for x in allrules}
    ex, mon = run_sel(item, lines, sel)
    nsel += 1
    r.transitions += ex.transitions
    if ex.outcome == "ok" and ex.final_lines != plain.final_lines:
        viol(("all_rules_all_differs_from_plain_fix",), {}, {"<every rule>": "all"})
    # nothing listed: untouched, not even written
    ex, mon = run_sel(item, lines, {})
    nsel += 1
    if ex.outcome == "ok":
        if ex.final_lines != lines or (ex.rl is not None and ex.rl.had_violations):
            viol(("empty_selection_changed_or_rewrote_the_file",), {"effective": ex.effective_rules[:3]}, {})
        elif mon.bad:
            viol(mon.bad[:1] + ("empty_selection",), {"rule": mon.bad[1]}, {})
    # the degenerate spellings of "nothing listed" (a tool that has no diagnostics writes an empty object)
    for nm, shape in (("{}", {}), ('{"fix":{}}', {"fix": {}})):
        ex, mon = run_sel(item, lines, {}, shape=shape)
        nsel += 1
        if ex.outcome == "ok" and (ex.final_lines != lines or (ex.rl is not None and ex.rl.had_violations) or mon.bad):
            viol(("empty_selection_changed_or_rewrote_the_file", "shape:" + nm), {"effective": ex.effective_rules[:3]}, {})
    # configuration dimension: a reporting rule demoted to a warning is never repaired by --fix, so listing it (alone, or together with
    # every other rule) must not repair it either: fix_{every rule: all} == fix under that configuration too
    if V and not item.get("cfg"):
        ridw = sorted(V)[0]
        cfgw = {"rule": {ridw: {"severity": "Warning"}}}
        plainw = drivers.d_pipe(dict(it0, cfg=cfgw), [])
        if plainw.outcome == "ok":
            ex, mon = run_sel(item, lines, {x: "all" for x in allrules}, cfg=cfgw)
            nsel += 1
            if ex.outcome == "ok" and ex.final_lines != plainw.final_lines:
                viol(("all_rules_all_differs_from_plain_fix", "rule_demoted_to_warning"), {"rule": ridw}, {"<every rule>": "all"})
            ex, mon = run_sel(item, lines, {ridw: "all"}, cfg=cfgw)
            nsel += 1
            if ex.outcome == "ok" and (ex.final_lines != lines or (ex.rl is not None and ex.rl.had_violations)):
                viol(("listed_warning_rule_was_fixed_or_file_rewritten",), {"rule": ridw, "effective": ex.effective_rules[:3]}, {ridw: "all"})
    # a rule listed with no line at all, and with a line it does not report on: nothing to fix, so nothing may be written
    if V:
        rid0 = sorted(V)[0]
        free0 = next((k for k in range(1, len(lines) + 1) if k not in V[rid0]), None)
        for s0 in ([], [free0] if free0 else None):
            if s0 is None:
                continue
            ex, mon = run_sel(item, lines, {rid0: list(s0)})
            nsel += 1
            if ex.outcome == "ok" and (ex.final_lines != lines or (ex.rl is not None and ex.rl.had_violations)):
                viol(("selection_that_fixes_nothing_changed_or_rewrote_the_file", "no_line" if not s0 else "unreported_line"), {"rule": rid0, "effective": ex.effective_rules[:3]}, {rid0: list(s0)})
    if item.get("only_global"):
        V = {}
    # trailing-whitespace-only differences are the documented file-wide side effect of a write-back
    tw = {i + 1 for i, x in enumerate(lines) if x != x.rstrip()}
    for rid, lns in V.items():
        d = spec.get(rid)
        local = d is not None and d["group"] in LOCAL
        exa, mona = run_sel(item, lines, {rid: "all"})
        nsel += 1
        if exa.outcome != "ok":
            continue
        if mona.bad:
            viol((mona.bad[0], "rule_all"), {"rule": mona.bad[1]}, {rid: "all"})
            continue
        ch_all = changed_lines(lines, exa.final_lines)
        sels = [{l} for l in lns] + [{a, b} for a, b in zip(lns, lns[1:])]
        # the order and multiplicity in which a tool lists the lines must not matter
        sels += [(b, a) for a, b in zip(lns, lns[1:])][:3] + [(l, l) for l in lns[:2]] + ([tuple(reversed(lns))] if len(lns) > 2 else [])
        free = next((k for k in range(1, len(lines) + 1) if k not in lns), None)
        if free:
            sels.append({free})
        if len(sels) > 24:
            sels = sels[:12] + sels[-12:]
        for s in sels:
            ex, mon = run_sel(item, lines, {rid: s})
            nsel += 1
            r.transitions += ex.transitions
            if ex.outcome != "ok":
                continue
            listed_as = "set" if isinstance(s, set) else ("duplicate" if len(set(s)) < len(s) else "descending")
            if mon.bad:
                viol((mon.bad[0], "rule_lines"), {"rule": mon.bad[1], "more": mon.bad[2:]}, {rid: s})
                break
            if not isinstance(s, set):
                # same lines listed in another order / twice: the result must be that of the plain set
                ref, _m = run_sel(item, lines, {rid: set(s)})
                nsel += 1
                if ref.outcome == "ok" and ref.final_lines != ex.final_lines:
                    viol(("result_depends_on_order_or_repetition_of_listed_lines", listed_as), {"rule": rid, "lines": list(s)}, {rid: list(s)})
                    break
                s = set(s)
            if local and ch_all is not None:
                ch = changed_lines(lines, ex.final_lines)
                if ch is None:
                    viol(("line_local_rule_changed_line_count", rid), {}, {rid: s})
                    break
                outside = sorted(ch - s - tw)
                if outside:
                    viol(("lines_outside_the_selection_changed", rid), {"lines": outside[:4], "example": ex.final_lines[outside[0] - 1]}, {rid: s})
                    break
                must = {l for l in s if l in ch_all and l not in tw}
                missing = sorted(must - ch)
                if missing:
                    viol(("listed_line_not_fixed", rid), {"lines": missing[:4]}, {rid: s})
                    break
    r.extra["selections"] = nsel
    r.states.add(base.h64(sorted(V.items())))
    r.nontrivial = item["id"] if V else None
    if V:
        r.sample = {"id": item["id"], "fixable_reporting_rules": len(V), "selections_run": nsel}
    return r


def reproduce(item):
    return {report.key_str(v["key"]) for v in execute(item).violations}


def main(tier):
    t0 = time.time()
    if tier == "quick":
        seeds = corpus.small_slice(max_lines=25)
        its = universe.zero_dev(seeds, styles=(None,)) + universe.zero_dev([s for s in seeds if s.startswith("fix/")], styles=("jcl",))
    else:
        seeds = [s for s in corpus.seed_ids(("fix", "cls")) if len(corpus.lines_of(s)) <= 30] + [s for s in corpus.small_slice() if s.startswith("gen/")]
        its = universe.zero_dev(seeds, styles=(None,)) + universe.zero_dev([s for s in seeds if s.startswith("fix/")][::3], styles=("jcl",))
    # the same seeds with trailing whitespace on one line (the file-wide clean-up after phase 1 must not reach the disk on its own)
    tws = []
    for s in seeds if tier != "quick" else [x for x in seeds if x.startswith(("fix/", "gen/"))]:
        ops = universe.seedinfo(s).ops(("TW",))
        for op in (ops[:1] + ops[-1:] if len(ops) > 1 else ops):
            tws.append(dict(universe.mk(s, (op,)), only_global=True))
    its += tws
    m = explore.run(its, execute, horizon=900.0, label=PROP, chunk=1)
    return report.finish(
        PROP, tier, "exploration", [m], t0,
        "per seed and style (and per seed with trailing whitespace added to its first / last code line: global selections only), selections S: every rule 'all' (also with one reporting rule demoted to Warning by the configuration); nothing (three spellings); a warning rule listed alone; a rule with an empty line list;  (r,'all') for every fixable reporting rule r of the all-phases report; (r,[l]) for every reported line; (r,[l1,l2]) for "
        "adjacent reported lines, the same in descending order and with a line listed twice; (r,[a line r does not report]); each through the real apply_rules --fix --fix_only with a per-transition monitor (no unlisted rule fixes, a listed rule applies "
        "only violations on listed lines); for line-local rules (documented whitespace/indent/alignment/case) the changed lines are within the selection (plus trailing-whitespace-only lines) and "
        "every listed line that (r,'all') changes is changed; non-trivial = seeds with at least one fixable reporting rule",
        ["more than 24 line selections per rule are cut to the first and last 12 (reported in evidence as not exhaustive only if that happened: it does not on S_q)"],
        extra_cov={"selections_run": m.extra.get("selections", 0), "bound": ("S_q (<=25 lines) x default, fixtures also x jcl" if tier == "quick" else "all fix/cls seeds <= 30 lines + generated singles x default, every third fixture also x jcl")},
        reproduce=reproduce,
        technique="bounded-exhaustive enumeration of fix_only selections against the real code with a per-transition monitor and a differential oracle",
    )
