"""C07 — a rule's fix touches exactly the lines that rule reported (whitespace, indent, alignment, case rules)."""
import time

from .. import docspec, drivers, explore, report
from . import common

PROP = "C07"
GROUPS = ("whitespace", "indent", "alignment", "case")
KQ = ("NL", "W3", "J", "IND3")
KT = KQ + ('WT', 'IND0', 'UP')


class Mon(drivers.Monitor):
    def __init__(self):
        self.spec = docspec.spec()
        self.fired = set()

    def after_fix(self, ex, rule, before, after, changed):
        if ex.kind != "fix":
            return
        rid = rule.unique_id
        d = self.spec.get(rid)
        if d is None or d["group"] not in GROUPS or d["unfixable"]:
            return
        applied = ex.applied or []
        if not changed and not applied:
            return
        bl, al = before.lines(), after.lines()
        reported = {v.get_line_number() for v in applied}
        nlines = len(bl)
        for ln in reported:
            if not isinstance(ln, int) or ln < 1 or ln > nlines:
                ex.violation((rid, "reported_line_outside_file"), {"line": ln, "lines": nlines})
                return
        self.fired.add(rid)
        if len(al) != len(bl):
            ex.violation((rid, "line_count_changed"), {"before": len(bl), "after": len(al), "reported": sorted(reported)[:10]})
            return
        changed_lines = {i + 1 for i, (x, y) in enumerate(zip(bl, al)) if x != y}
        if getattr(rule, "case", None) not in (None, "upper", "lower"):
            # docs/configuring_uppercase_and_lowercase_rules.rst: upper_or_lower "will not perform any updates to the code"; the
            # pattern styles cannot be derived from an arbitrary identifier either: such reports are documented as not repairable
            reported = reported & changed_lines
        if changed_lines != reported:
            extra = sorted(changed_lines - reported)
            missing = sorted(reported - changed_lines)
            kind = "changed_unreported_line" if extra else "reported_line_not_changed"
            i = (extra or missing)[0]
            ex.violation((rid, kind), {"extra": extra[:10], "missing": missing[:10], "line_before": bl[i - 1], "line_after": al[i - 1]})


def execute(item):
    mon = Mon()
    ex = common.run_item(item, [mon], PROP)
    r = common.to_result(ex, PROP)
    r.nontrivial = {(rid, item.get("cfgname", "")) for rid in mon.fired} if mon.fired else None
    r.extra["fired_rules"] = set(mon.fired)
    if mon.fired:
        r.sample = {"id": item["id"], "line_local_rules_that_fixed": sorted(mon.fired)[:8]}
    return r


def reproduce(item):
    return {report.key_str(v["key"]) for v in execute(item).violations}


def main(tier):
    t0 = time.time()
    spec = docspec.spec()
    rules = {r for r, d in spec.items() if d["group"] in GROUPS and not d["unfixable"]}
    its = common.pipe_items(tier, KQ, KT, k1=True, k1_rules=rules, focus=rules)
    m = explore.run(its, execute, horizon=60.0, label=PROP)
    return report.finish(
        PROP, tier, "model_checking", [m], t0,
        "one execution = real apply_rules --fix on one variant; each fix of a documented whitespace/indent/alignment/case rule is a transition on which "
        "changed_lines == reported_lines is evaluated (reported = the violations handed to vhdlFile.update); non-trivial = distinct (rule, option deviation) that applied a fix",
        ["rule class from docs icon line; documented-unfixable rules are outside (vacuous)", "blank_line (phase 3) rules are outside the statement"],
        extra_cov={"rules_in_scope": len(rules), "rules_observed_fixing": len(m.extra.get("fired_rules", ())), "bound": common.bound_text(tier, KQ, KT)},
        reproduce=reproduce,
        technique="explicit-state exploration of the fix pipeline, per-transition line-set equality",
    )
