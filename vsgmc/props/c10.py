"""C10 — a rule that has just fixed a file has nothing left to fix: on deep copies taken immediately after
every effective fix transition, the same rule's fix is applied again and must change nothing."""
import contextlib
import io
import time

from .. import base, drivers, explore, report
from . import common

PROP = "C10"
KQ = ("NL", "CE", "J", "CEE", "IND0")
KT = KQ + ('W3',)


class Mon(drivers.Monitor):
    def __init__(self):
        self.fired = set()
        self.checked = 0

    def after_fix(self, ex, rule, before, after, changed):
        if not changed or ex.kind != "fix":
            return
        rid = rule.unique_id
        self.fired.add(rid)
        self.checked += 1
        f2 = drivers.clone_file(ex.oFile)
        r2 = drivers.clone_rule(rule)
        r2.violations = []
        l0 = f2.get_lines()
        try:
            with contextlib.redirect_stdout(io.StringIO()):
                type(r2).fix(r2, f2, ex.oConfig.dFixOnly)
        except explore.Timeout:
            raise
        except Exception as e:  # noqa
            ex.notes.append(("blocked_by", f"C19 exception:{type(e).__name__} in second fix of {rid}"))
            return
        l1 = f2.get_lines()
        if l1 != l0:
            n = min(len(l0), len(l1))
            i = next((k for k in range(n) if l0[k] != l1[k]), n)
            ex.violation((rid, "second_fix_changes_text"), {"line": i, "after_first_fix": l0[i] if i < len(l0) else None, "after_second_fix": l1[i] if i < len(l1) else None,
                                                          "lines_before": len(l0) - 1, "lines_after": len(l1) - 1})


def execute(item):
    mon = Mon()
    ex = common.run_item(item, [mon], PROP)
    r = common.to_result(ex, PROP)
    r.notes += ex.notes
    r.nontrivial = {(rid, item.get("cfgname", "")) for rid in mon.fired} if mon.fired else None
    r.extra["second_fixes"] = mon.checked
    r.extra["fired_rules"] = set(mon.fired)
    if mon.fired:
        r.sample = {"id": item["id"], "rules_re-applied": sorted(mon.fired)[:8]}
    return r


def reproduce(item):
    return {report.key_str(v["key"]) for v in execute(item).violations}


def main(tier):
    t0 = time.time()
    its = common.pipe_items(tier, KQ, KT, one_line=True, k1=True)
    m = explore.run(its, execute, horizon=90.0, label=PROP)
    return report.finish(
        PROP, tier, "model_checking", [m], t0,
        "one execution = real apply_rules --fix; after every effective fix transition (a model state reached immediately after rule r fixed) the file model and r are deep-copied "
        "and r.fix is applied to the copy again: the emitted text must not change; non-trivial = distinct (rule, option deviation) re-applied",
        ["copies are made with copy.deepcopy of the instance dictionaries (observation shadows stripped); the observed run itself is not perturbed",
         "'violations the rule is unable to repair' = whatever a no-op second fix leaves behind"],
        extra_cov={"second_fix_applications": m.extra.get("second_fixes", 0), "rules_re-applied": len(m.extra.get("fired_rules", ())), "bound": common.bound_text(tier, KQ, KT)},
        reproduce=reproduce,
        technique="explicit-state exploration of the fix pipeline; idempotence of each rule's fix checked in every reached post-fix state",
    )
