"""C06 — analysis is read-only, repeatable and rules do not interfere.  Explicit-state search over the real
Rule.analyze: node = complete canonical state of the file model, edge = analyze(r).  If every edge from the
parsed state is a self-loop the reachable set is one node and order/subset independence follows for all orders
and all subsets; mutating edges are followed and every other rule's report compared across them."""
import contextlib
import io
import json
import os
import subprocess
import sys
import time

from vsg import parser, rule_list, severity

from .. import base, corpus, drivers, explore, report, universe
from . import common
from .c18 import map_fingerprint

PROP = "C06"
KQ = ("NL", "CE")
KT = KQ + ("J", "W0")


def index_canon(oFile):
    return base.h64(sorted((b, s, tuple(l)) for b, d in oFile.oTokenMap.dMap.items() for s, l in d.items() if l))


def canon(oFile):
    out = [index_canon(oFile)]  # the lookup index is part of the state every rule reads
    for t in oFile.lAllObjects:
        d = t.__dict__
        out.append((type(t).__qualname__, type(t).__module__, tuple((k, repr(v)) for k, v in sorted(d.items()))))
    return base.h64(out)


def classes(oFile):
    return [type(t) for t in oFile.lAllObjects]


def build(lines, item):
    cla, oConfig, path = drivers.build_config(item.get("style"), item.get("cfg"), (), lines=lines)
    oFile = base.parse(lines)
    oFile.set_indent_map(oConfig.dIndent)
    with contextlib.redirect_stdout(io.StringIO()):
        rl = rule_list.rule_list(oFile, oConfig.severity_list)
        rl.configure(oConfig)
    return oFile, rl, oConfig


def vio(rule):
    return sorted((v.get_line_number(), v.get_solution() or "") for v in rule.violations)


def enabled(rl):
    out = []
    for phase in range(1, 8):
        for sub in range(0, 6):
            out += [r for r in rl.rules if r.phase == phase and r.subphase == sub and not r.disable]
    return out


class Barrier:
    """write barrier on parser.item for the duration of an analysis pass: records attribute rebinding on tokens"""

    def __init__(self):
        self.hits = []
        self.rule = None

    def __enter__(self):
        b = self

        def _set(obj, name, value):
            old = obj.__dict__.get(name, b)
            if old is b or old != value or type(old) is not type(value):
                b.hits.append((b.rule, type(obj).__name__, name))
            object.__setattr__(obj, name, value)

        parser.item.__setattr__ = _set
        return self

    def __exit__(self, *a):
        del parser.item.__setattr__


def analysis_pass(lines, item, order="forward", first=None, skip=None, detect=False):
    """fresh parse + fresh rules; analyse the enabled rules in the given order; returns (V, mutators, file, notes)"""
    oFile, rl, oConfig = build(lines, item)
    rules = enabled(rl)
    if order == "reverse":
        rules = rules[::-1]
    if first is not None:
        rules = [r for r in rules if r.unique_id == first] + [r for r in rules if r.unique_id != first]
    if skip is not None:
        rules = [r for r in rules if r.unique_id not in skip]
    V = {}
    mutators = []
    snap = list(oFile.lAllObjects)
    c0 = canon(oFile) if detect else None
    text0 = oFile.get_lines()
    cls0 = classes(oFile)
    bar = Barrier()
    ctx = bar if detect else contextlib.nullcontext()
    n = 0
    last_c = c0
    seg = []
    with ctx, contextlib.redirect_stdout(io.StringIO()):
        for r in rules:
            bar.rule = r.unique_id
            nh = len(bar.hits)
            fp0 = map_fingerprint(oFile.oTokenMap.dMap) if detect else None
            r.analyze(oFile)
            V[r.unique_id] = vio(r)
            n += 1
            if detect:
                seg.append(r.unique_id)
                if len(bar.hits) > nh or oFile.lAllObjects != snap or map_fingerprint(oFile.oTokenMap.dMap) != fp0:
                    tok_ids = None
                    c1 = canon(oFile)
                    if c1 != last_c:
                        mutators.append(r.unique_id)
                        last_c = c1
                        snap = list(oFile.lAllObjects)
                    seg = []
                elif n % 64 == 0:
                    c1 = canon(oFile)
                    if c1 != last_c:  # in-place mutation the barrier cannot see: attribute it to the segment
                        mutators.append("one_of:" + ",".join(seg[:64]))
                        last_c = c1
                    seg = []
    if detect:
        c1 = canon(oFile)
        if c1 != last_c:
            mutators.append("one_of:" + ",".join(seg[:64]))
    notes = {}
    if oFile.get_lines() != text0:
        notes["text_changed"] = True
    if classes(oFile) != cls0:
        notes["classes_changed"] = True
    return V, mutators, (oFile, rl, oConfig), notes, n


def execute(item):
    try:
        return _execute(item)
    except explore.Timeout:
        raise
    except Exception as e:  # noqa
        if not explore.product_raised(sys.exc_info()[2]):
            raise
        # the product raised in one of the later passes (reverse order, repeat, subsets): C19's business
        r = explore.Result()
        r.notes.append(("blocked_by", f"C19 exception:{type(e).__name__}@{explore.repo_frame(sys.exc_info()[2])}"))
        r.violations.append({"key": ("analysis_raises_in_another_order_or_on_repeat", f"{type(e).__name__}@{explore.repo_frame(sys.exc_info()[2])}"), "detail": {"message": str(e)[:200]}, "item": common.strip_item(item)})
        return r


def _execute(item):
    r = explore.Result()
    lines = universe.materialise(item)
    try:
        VF, mut, (oFile, rl, oConfig), notes, n = analysis_pass(lines, item, "forward", detect=True)
    except explore.Timeout:
        raise
    except Exception as e:  # noqa
        fr = explore.repo_frame(sys.exc_info()[2])
        r.notes.append(("blocked_by", f"C19 exception:{type(e).__name__}@{fr}"))
        return r
    r.transitions += n
    r.states.add(canon(oFile))
    it = common.strip_item(item)
    for k in notes:
        r.violations.append({"key": ("analysis_" + k, "+".join(mut)[:80]), "detail": {}, "item": it})
    # repeatability on the same objects: clear, analyse again (what check_rules does when called twice)
    with contextlib.redirect_stdout(io.StringIO()):
        rl.clear_violations()
        rl.check_rules(bAllPhases=True)
    V2 = {x.unique_id: vio(x) for x in enabled(rl)}
    r.transitions += len(V2)
    for rid in VF:
        if V2.get(rid) != VF[rid]:
            r.violations.append({"key": (rid, "report_differs_when_check_is_repeated"), "detail": {"first": VF[rid][:3], "second": (V2.get(rid) or [])[:3]}, "item": it})
            break
    # order: reverse pass on fresh objects
    VR, _, _, _, n2 = analysis_pass(lines, item, "reverse")
    r.transitions += n2
    phase = {x.unique_id: (x.phase, x.subphase) for x in rl.rules}
    for rid in VF:
        if VR.get(rid) != VF[rid]:
            # documented dependence: a later sub-phase on an earlier sub-phase of the same phase
            culprits = [m for m in mut if not m.startswith("one_of") and phase[m][0] == phase[rid][0] and phase[m][1] < phase[rid][1]]
            if culprits:
                r.extra["documented_subphase_dependences"] = r.extra.get("documented_subphase_dependences", 0) + 1
                continue
            r.violations.append({"key": (rid, "report_depends_on_analysis_order", "+".join(mut)[:60]), "detail": {"forward": VF[rid][:3], "reverse": VR[rid][:3]}, "item": it})
            break
    # every mutating edge: follow it (m first) and compare every other rule with a pass in which m is absent
    for m in mut:
        if m.startswith("one_of"):
            r.violations.append({"key": ("analysis_mutates_token_attribute_in_place", m[:80]), "detail": {}, "item": it})
            continue
        Vm, _, _, _, n3 = analysis_pass(lines, item, "forward", first=m)
        Vw, _, _, _, n4 = analysis_pass(lines, item, "forward", skip={m})
        r.transitions += n3 + n4
        for rid in Vw:
            if Vm.get(rid) != Vw[rid]:
                if phase[m][0] == phase[rid][0] and phase[m][1] < phase[rid][1]:
                    r.extra["documented_subphase_dependences"] = r.extra.get("documented_subphase_dependences", 0) + 1
                    continue
                r.violations.append({"key": (rid, "report_depends_on_whether_rule_was_analysed", m), "detail": {"with": Vm[rid][:3], "without": Vw[rid][:3]}, "item": it})
                break
    r.extra["mutating_edges"] = len(mut)
    if mut:
        r.extra["mutators"] = set(mut)
    else:
        r.extra["closed_single_state"] = 1
    # subsets at the rule_list level (only where asked: costs one pass per subset)
    if item.get("subsets"):
        reporting = [rid for rid in VF if VF[rid]]
        phases = sorted({phase[rid][0] for rid in reporting})
        subsets = [{rid} for rid in reporting[:12]] + [{x for x in VF if phase[x][0] == p} for p in phases]
        for D in subsets:
            VD, _, _, _, n5 = analysis_pass(lines, item, "forward", skip=D)
            r.transitions += n5
            for rid in VF:
                exp = [] if rid in D else VF[rid]
                if (VD.get(rid) or []) != exp:
                    r.violations.append({"key": (rid, "report_changes_when_other_rules_are_disabled"), "detail": {"disabled": sorted(D)[:4], "all": VF[rid][:3], "subset": (VD.get(rid) or [])[:3]}, "item": it})
                    break
    nrep = sum(1 for v in VF.values() if v)
    r.nontrivial = item["id"] if nrep else None
    r.extra["V"] = {item["id"]: base.h64(sorted(VF.items()))}
    if nrep and r.sample is None and item["id"].endswith("rule_001"):
        r.sample = {"id": item["id"], "rules_analysed": n, "rules_reporting": nrep, "mutating_edges": mut}
    return r


def reproduce(item):
    return {report.key_str(v["key"]) for v in execute(item).violations}


def items(tier):
    seeds = corpus.seed_ids(("fix", "cls", "gen", "big"))
    sq = set(corpus.small_slice(max_lines=25))
    out = []
    for it in universe.zero_dev(seeds, styles=universe.K0 if tier != "quick" else (None, "jcl")):
        if it["seed"] in sq and it["style"] is None:
            it["subsets"] = True
        out.append(it)
    if tier == "quick":
        out += universe.one_dev([s for s in sq if s.startswith("gen/") or s.startswith("cls/")], KQ)
        out += universe.one_dev(sorted(sq), ("UPI",))  # an identifier used with another letter case than its declaration (the consistent-case rules)
    else:
        for it in out:
            if it["seed"].startswith("fix/") and it["style"] is None:
                it["subsets"] = True
        out += universe.one_dev(corpus.small_slice(), KT + ("UPI",))
    return out


def hashseed_pass(seedval):
    """V of every S_q seed under another PYTHONHASHSEED, computed in a separate interpreter"""
    env = dict(os.environ, PYTHONHASHSEED=str(seedval), VSGMC_C06_DUMP="1")
    p = subprocess.run([sys.executable, "-W", "ignore", "-m", "vsgmc", "C06"], cwd=base.VERIF, env=env, capture_output=True, text=True)
    try:
        return json.loads(p.stdout.strip().split("\n")[-1])
    except Exception:  # noqa
        return None


def main(tier):
    t0 = time.time()
    if os.environ.get("VSGMC_C06_DUMP"):
        its = universe.zero_dev(corpus.small_slice(), styles=(None,))
        m = explore.run(its, execute, horizon=120.0, label=PROP)
        print(json.dumps({k: v for k, v in m.extra.get("V", {}).items()}))
        return 0
    its = items(tier)
    m = explore.run(its, execute, horizon=240.0, label=PROP)
    # environment answer PYTHONHASHSEED in {0, 1, 2}
    mine = m.extra.get("V", {})
    hs = 0
    for sv in (1, 2):
        other = hashseed_pass(sv)
        if other is None:
            print("HARNESS-ERROR hash-seed sub-process produced no result")
            return 2
        for k, v in other.items():
            hs += 1
            if k in mine and mine[k] != v:
                m.violations[("report_depends_on_PYTHONHASHSEED", k.split("/")[1] if "/" in k else k)] = (0, {"key": ("report_depends_on_PYTHONHASHSEED", k), "detail": {"seed": sv}, "item": universe.mk(k)})
    muts = sorted(m.extra.get("mutators", ()))
    return report.finish(
        PROP, tier, "model_checking", [m], t0,
        "per input: node = canonical hash of every attribute of every token and of the lookup index; edges = analyze(r) for each enabled rule on fresh objects (forward pass with a write barrier on parser.item, "
        "identity check of the token list and a full canonical hash every 64 edges); reverse-order pass; repeat on the same objects; for each mutating edge a pass with that rule first and a pass "
        "without it; subsets D (each reporting rule, each phase) where marked; PYTHONHASHSEED 1 and 2 in separate interpreters; non-trivial = inputs with at least one reporting rule",
        ["closure argument: if no analyze edge changes the canonical state the reachable set is a single node, so every order and every subset yields the same per-rule reports",
         "text and token classes are what the property protects; other attribute writes are followed as edges and only matter if they change another rule's report"],
        extra_cov={"inputs_closed_as_single_state": m.extra.get("closed_single_state", 0), "mutating_edges": m.extra.get("mutating_edges", 0), "mutating_rules": muts,
                   "documented_subphase_dependences_seen": m.extra.get("documented_subphase_dependences", 0), "hashseed_comparisons": hs},
        reproduce=reproduce,
        technique="explicit-state search over the real analyze transition function with canonical-state hashing and closure detection",
    )
