"""Seed corpus (vendored under /verif/corpus, sha256-pinned) and generated family."""
import hashlib
import json
import os

from . import base, gen

_DIR = os.path.join(base.VERIF, "corpus")
_manifest = None
_cache = {}


def manifest():
    global _manifest
    if _manifest is None:
        _manifest = json.load(open(os.path.join(_DIR, "manifest.json")))
        _manifest["by_id"] = {i["id"]: i for i in _manifest["items"]}
    return _manifest


def verify():
    bad = []
    for it in manifest()["items"]:
        data = open(os.path.join(_DIR, it["file"]), "rb").read()
        if hashlib.sha256(data).hexdigest() != it["sha256"]:
            bad.append(it["id"])
    return bad


def seed_ids(kinds=("fix", "cls", "gen"), max_lines=None):
    out = []
    for it in manifest()["items"]:
        if it["kind"] in kinds and it["accepted"] and (max_lines is None or it["lines"] <= max_lines):
            out.append(it["id"])
    if "gen" in kinds:
        out.extend(gen.ids())
    return out


def lines_of(sid):
    if sid in _cache:
        return _cache[sid]
    if sid.startswith("gen/"):
        lines = gen.lines_of(sid)
    else:
        it = manifest()["by_id"][sid]
        try:
            txt = open(os.path.join(_DIR, it["file"]), encoding="utf-8").read()
        except UnicodeDecodeError:
            txt = open(os.path.join(_DIR, it["file"]), encoding="ISO-8859-1").read()
        lines = [ln.rstrip("\r\n") for ln in txt.split("\n")]
        if lines and lines[-1] == "":
            lines.pop()
    _cache[sid] = lines
    return lines


def rule_of_seed(sid):
    """fix/port/rule_007 -> port_007"""
    if sid.startswith("fix/"):
        _, d, r = sid.split("/")
        return d + "_" + r[5:]
    return None


def small_slice(max_lines=None):
    """S_q: the smallest fixture of every rule family directory + all classification fixtures <= 30 lines
    + the single-construct generated designs."""
    best = {}
    for it in manifest()["items"]:
        if it["kind"] == "fix" and it["accepted"]:
            d = it["id"].split("/")[1]
            if d not in best or (it["lines"], it["id"]) < (best[d]["lines"], best[d]["id"]):
                best[d] = it
    out = sorted(i["id"] for i in best.values())
    out += [it["id"] for it in manifest()["items"] if it["kind"] == "cls" and it["lines"] <= 30]
    out += gen.ids(single_only=True)
    if max_lines is not None:
        out = [s for s in out if len(lines_of(s)) <= max_lines]
    return out
