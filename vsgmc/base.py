"""Common ground of the explorer: environment ownership, the binding to the repository under
test, token predicates shared by every oracle, the parse driver."""
import hashlib
import os
import sys

VERIF = os.path.dirname(os.path.dirname(os.path.abspath(__file__)))
REPO = os.path.realpath(os.environ.get("VSGMC_REPO", "/repo"))

if REPO != "/repo":
    # scratch tree given: put it first so that `import vsg` resolves there (the editable install points to /repo)
    sys.path.insert(0, REPO)

import warnings

warnings.filterwarnings("ignore", category=SyntaxWarning)

import vsg  # noqa: E402

if not os.path.realpath(vsg.__file__).startswith(REPO + os.sep):
    print(f"HARNESS-ERROR vsg imported from {vsg.__file__}, expected under {REPO}")
    sys.exit(2)

from vsg import parser, vhdlFile  # noqa: E402
from vsg.vhdlFile import vhdlFile as _vf_mod  # noqa: E402

SEED = int(os.environ.get("VERIF_SEED", "0") or 0)
NPROC = int(os.environ.get("VSGMC_NPROC", str(min(16, os.cpu_count() or 1))))


def scratch_root():
    root = os.environ.get("VSGMC_SCRATCH")
    if not root:
        root = "/dev/shm" if os.access("/dev/shm", os.W_OK) else "/var/tmp"
    d = os.path.join(root, f"vsgmc.{os.getpid()}")
    os.makedirs(d, exist_ok=True)
    return d


# ------------------------------------------------------------------------------------------------
# token predicates
# ------------------------------------------------------------------------------------------------
_NONCODE_BASE = (parser.whitespace, parser.carriage_return, parser.blank_line, parser.comment, parser.preprocessor)


def is_code(tok):
    if isinstance(tok, _NONCODE_BASE):
        return False
    mod = type(tok).__module__
    if mod == "vsg.token.delimited_comment" or mod == "vsg.token.pragma":
        return False
    if isinstance(tok, parser.beginning_of_file):
        return False
    return tok.value != ""


def is_commentish(tok):
    """comment / delimited comment part / pragma / preprocessor line"""
    if isinstance(tok, (parser.comment, parser.preprocessor)):
        return True
    mod = type(tok).__module__
    return mod == "vsg.token.delimited_comment" or mod == "vsg.token.pragma"


def role(tok):
    t = type(tok)
    return t.__module__[4:] + "." + t.__name__ if t.__module__.startswith("vsg.") else t.__module__ + "." + t.__name__


def is_exact_literal(tok):
    """character literal, string literal, extended identifier: compared exactly (C01/C03/C05)"""
    v = tok.value
    if type(tok).__module__ == "vsg.token.bit_string_literal":
        return False  # base specifier / value of a bit-string literal: a different lexical class (DESIGN C01)
    if isinstance(tok, (parser.character_literal, parser.string_literal)):
        return True
    if len(v) >= 2 and ((v[0] == '"' and v[-1] == '"') or (v[0] == "\\" and v[-1] == "\\")):
        return True
    if len(v) == 3 and v[0] == "'" and v[2] == "'":
        return True
    return False


def norm_value(tok):
    return tok.value if is_exact_literal(tok) else tok.value.lower()


def code_seq(tokens):
    return [(norm_value(t), role(t)) for t in tokens if is_code(t)]


def code_values(tokens):
    return [norm_value(t) for t in tokens if is_code(t)]


def parse(lines, filename=None):
    return vhdlFile.vhdlFile(list(lines), sFilename=filename)


def text_of(oFile):
    return oFile.get_lines()[1:]


def h64(obj):
    return int.from_bytes(hashlib.blake2b(repr(obj).encode("utf-8", "surrogatepass"), digest_size=8).digest(), "big")


def line_table(lAll):
    """token index -> 1-based line number"""
    out = []
    n = 1
    for t in lAll:
        out.append(n)
        if isinstance(t, parser.carriage_return):
            n += 1
    return out
