"""Layout / case deviation operators (DESIGN §3.1).  A variant is (seed id, tuple of ops); every op is
meaning-preserving by construction: it only rewrites the gap between two adjacent code tokens (or a
line boundary), never a comment, pragma, preprocessor or code-tag line, and same-line rewrites are
admitted only when the product-independent check `nonblank(create(new)) == nonblank(create(old))`
holds for the rewritten line."""
import re

from vsg import parser, tokens

from . import base

WORD = re.compile(r"^[A-Za-z][A-Za-z0-9_]*$")

OPS_WS = ("W1", "W3", "WT", "W0", "NL", "NLI", "CE", "CD", "CDG", "WFF", "WNB")
OPS_ADJ = ("WI", "CDI")
OPS_BOUNDARY = ("CO", "CO0", "PPO", "PGO", "BL", "J", "CEE", "CEG")
OPS_WORD = ("UP", "LO", "CAP", "UPI")
OPS_FILE = ("ALLUP", "ALLLO", "ALLJ")
OPS_LINE = ("TW", "IND0", "IND3")
ALL_OPS = OPS_WS + OPS_ADJ + OPS_BOUNDARY + OPS_WORD + OPS_FILE + OPS_LINE


def _nonblank(s):
    return [t for t in tokens.create(s) if not t.isspace() and t != ""]


class SeedInfo:
    """Positions at which operators apply, computed from the pinned-tree-independent structure of
    the parsed seed (code / non-code distinction only)."""

    def __init__(self, sid, lines, oFile=None):
        self.sid = sid
        self.lines = list(lines)
        if oFile is None:
            oFile = base.parse(self.lines)
        self.ws = []  # (line, s, e)   same-line whitespace between two code tokens
        self.adj = []  # (line, col)   two adjacent code tokens, no whitespace
        self.words = []  # (line, s, e)
        self.idents = []  # the words that are not keywords (by role class)
        self.bound = {}  # line i -> dict(join=bool, insert=bool)   boundary between line i and i+1 (0-based)
        self.ce_end = []  # lines that hold code and no comment: end-of-line comment may be added
        self.indent = []  # lines with code: (line, width of leading whitespace)
        nlines = len(self.lines)
        line = 0
        col = 0
        prev = None  # (kind, line, s, e, tok) of previous non-empty token on this line
        in_delim = False
        info = [dict(code=False, comment=False, special=False, delim_open_at_end=False, tag=False) for _ in range(nlines + 1)]
        lAll = oFile.lAllObjects
        prev_code = None  # (line, s, e, tok)
        between = []  # tokens between prev_code and the current token
        for tok in lAll:
            if isinstance(tok, parser.carriage_return):
                info[line]["delim_open_at_end"] = in_delim
                line += 1
                col = 0
                between.append(tok)
                continue
            v = tok.value
            s, e = col, col + len(v)
            col = e
            mod = type(tok).__module__
            if mod == "vsg.token.delimited_comment":
                nm = type(tok).__name__
                if nm == "beginning":
                    in_delim = True
                elif nm == "ending":
                    in_delim = False
            if base.is_code(tok):
                info[line]["code"] = True
                if prev_code is not None and prev_code[0] == line:
                    if len(between) == 0:
                        self.adj.append((line, s))
                    elif len(between) == 1 and isinstance(between[0], parser.whitespace):
                        self.ws.append((line, prev_code[2], s))
                if WORD.match(v) and not base.is_exact_literal(tok):
                    self.words.append((line, s, e))
                    if not type(tok).__name__.endswith("keyword"):
                        self.idents.append((line, s, e))
                prev_code = (line, s, e, tok)
                between = []
            else:
                between.append(tok)
                if base.is_commentish(tok):
                    info[line]["comment"] = True
                    if mod == "vsg.token.pragma" or isinstance(tok, parser.preprocessor):
                        info[line]["special"] = True
                    if "vsg_" in v:
                        info[line]["tag"] = True
                        info[line]["special"] = True
                if mod == "vsg.token.pragma":
                    info[line]["special"] = True
        # a word directly followed by a string literal is a bit-string base specifier: leave it alone
        keep = []
        for ln, s, e in self.words:
            rest = self.lines[ln][e:]
            if rest.startswith('"'):
                continue
            keep.append((ln, s, e))
        self.words = keep
        for i in range(nlines):
            a = info[i]
            if a["code"]:
                txt = self.lines[i]
                self.indent.append((i, len(txt) - len(txt.lstrip(" \t"))))
                if not a["comment"] and not a["special"]:
                    self.ce_end.append(i)
            if i + 1 < nlines:
                b = info[i + 1]
                if a["delim_open_at_end"] or a["special"] or b["special"]:
                    continue
                self.bound[i] = dict(
                    insert=True,
                    join=(a["code"] and b["code"] and not a["comment"]),
                )
        self.info = info

    # ------------------------------------------------------------------ enumeration
    def ops(self, kinds):
        """all single ops of the requested kinds, deterministic order (position, then operator order)"""
        out = []
        kinds = tuple(kinds)
        for ln, s, e in self.ws:
            for k in OPS_WS:
                if k in kinds and self._ok_ws(k, ln, s, e):
                    out.append((k, ln, s))
        for ln, c in self.adj:
            if "WI" in kinds and self._ok_line(ln, self.lines[ln][:c] + " " + self.lines[ln][c:]) and not self._inside_literal(ln, c):
                out.append(("WI", ln, c))
            if "CDI" in kinds and not self._inside_literal(ln, c) and self._ok_glued(ln, c, c):
                out.append(("CDI", ln, c))
        for i in sorted(self.bound):
            b = self.bound[i]
            for k in ("CO", "CO0", "PPO", "PGO", "BL"):
                if k in kinds and b["insert"]:
                    out.append((k, i, 0))
            if "J" in kinds and b["join"]:
                joined = self.lines[i].rstrip(" \t") + " " + self.lines[i + 1].lstrip(" \t")
                if _nonblank(joined) == _nonblank(self.lines[i]) + _nonblank(self.lines[i + 1]):
                    out.append(("J", i, 0))
        for i in self.ce_end:
            if "CEE" in kinds:
                out.append(("CEE", i, 0))
            if "CEG" in kinds:
                # comment glued to the last code token (no blank in front of `--`): admitted only if the code tokens of the line are untouched
                old = _nonblank(self.lines[i])
                new = _nonblank(self.lines[i].rstrip(" \t") + "-- c1")
                if new[: len(old)] == old and new[len(old) : len(old) + 1] == ["--"]:
                    out.append(("CEG", i, 0))
            if "TW" in kinds:
                out.append(("TW", i, 0))
        for i, w in self.indent:
            if "IND0" in kinds and w > 0:
                out.append(("IND0", i, 0))
            if "IND3" in kinds and w != 3:
                out.append(("IND3", i, 0))
        for ln, s, e in self.words:
            w = self.lines[ln][s:e]
            for k, f in (("UP", str.upper), ("LO", str.lower), ("CAP", str.capitalize)):
                if k in kinds and f(w) != w:
                    out.append((k, ln, s))
        if "UPI" in kinds:
            # one occurrence of an identifier that occurs at least twice gets another letter case than its other occurrences
            # (a name used with a different case than its declaration)
            kept = set(self.words)
            cnt = {}
            for ln, s, e in self.idents:
                if (ln, s, e) in kept:
                    cnt[self.lines[ln][s:e].lower()] = cnt.get(self.lines[ln][s:e].lower(), 0) + 1
            for ln, s, e in self.idents:
                w = self.lines[ln][s:e]
                if (ln, s, e) in kept and cnt.get(w.lower(), 0) >= 2 and w.upper() != w:
                    out.append(("UPI", ln, s))
        for k in OPS_FILE:
            if k in kinds and (k != "ALLJ" or self._one_line() is not None):
                out.append((k, 0, 0))
        out.sort(key=lambda o: (o[1], o[2], ALL_OPS.index(o[0])))
        return out

    def _one_line(self):
        """the whole design on one line (blank lines dropped, every line break replaced by a blank): only for files without
        comments / pragmas / preprocessor lines, and only if the tokenizer sees the same code tokens"""
        if any(a["comment"] or a["special"] or a["delim_open_at_end"] for a in self.info):
            return None
        parts = [l.strip(" \t") for l in self.lines if l.strip(" \t")]
        if len(parts) < 2:
            return None
        joined = " ".join(parts)
        want = []
        for l in parts:
            want += _nonblank(l)
        return joined if _nonblank(joined) == want else None

    def _inside_literal(self, ln, c):
        """VSG's tokenizer splits abstract literals (20e-10, 16#FF#, 1.5) into several tokens: a space there is not a re-layout"""
        L = self.lines[ln]
        i = c
        while i > 0 and (L[i - 1].isalnum() or L[i - 1] in "_#."):
            i -= 1
        j = c
        while j < len(L) and (L[j].isalnum() or L[j] in "_#."):
            j += 1
        left, right = L[i:c], L[c:j]
        if left[:1].isdigit():
            return True  # the run left of the gap starts with a digit: we are inside / directly after a numeric literal
        if c > 0 and L[c - 1] in "+-" and c >= 2 and L[c - 2] in "eE" and any(ch.isdigit() for ch in L[max(0, c - 6) : c - 2]):
            return True  # exponent sign
        if right[:1] in "+-" and left[-1:] in "eE":
            return True
        return False

    def _ok_line(self, ln, new):
        return _nonblank(new) == _nonblank(self.lines[ln])

    def _ok_glued(self, ln, s, e):
        """a delimited comment glued to both neighbours (no blanks) in place of L[s:e]: admitted only if the tokenizer sees the
        code tokens of the line unchanged around one /* ... */ group"""
        L = self.lines[ln]
        new = _nonblank(L[:s] + "/* c1 */" + L[e:])
        if "/*" not in new:
            return False
        i = new.index("/*")
        if "*/" not in new[i:]:
            return False
        j = new.index("*/", i)
        if new[i + 1 : j] != ["c1"]:
            return False
        return new[:i] + new[j + 1 :] == _nonblank(L)

    def _ok_ws(self, k, ln, s, e):
        L = self.lines[ln]
        cur = L[s:e]
        if k == "W1":
            return cur != " "
        if k == "W3":
            return cur != "   "
        if k == "WT":
            return cur != "\t"
        if k == "W0":
            return self._ok_line(ln, L[:s] + L[e:])
        if k == "CDG":
            return self._ok_glued(ln, s, e)
        if k == "WFF":
            return cur != "\x0c"
        if k == "WNB":
            return cur != "\u00a0"
        return True  # NL NLI CE CD

    # ------------------------------------------------------------------ application
    def apply(self, ops):
        """returns the list of lines of the variant; ops applied from the end of the file backwards"""
        lines = list(self.lines)
        n = 0
        for k, ln, c in sorted(ops, key=lambda o: (o[1], o[2]), reverse=True):
            n += 1
            tag = f"c{len(ops) - n + 1}"
            if k in OPS_FILE:
                continue
            L = lines[ln]
            if k in OPS_WS:
                s = c
                e = s
                # recompute the end of the whitespace run on the (possibly already edited, but only further right) line
                while e < len(L) and L[e] in " \t\x0c\u00a0":
                    e += 1
                if k == "W1":
                    lines[ln] = L[:s] + " " + L[e:]
                elif k == "W3":
                    lines[ln] = L[:s] + "   " + L[e:]
                elif k == "WT":
                    lines[ln] = L[:s] + "\t" + L[e:]
                elif k == "W0":
                    lines[ln] = L[:s] + L[e:]
                elif k == "WFF":
                    lines[ln] = L[:s] + "\x0c" + L[e:]
                elif k == "WNB":
                    lines[ln] = L[:s] + "\u00a0" + L[e:]
                elif k == "NL":
                    lines[ln : ln + 1] = [L[:s], L[e:]]
                elif k == "NLI":
                    lines[ln : ln + 1] = [L[:s], "      " + L[e:]]
                elif k == "CE":
                    lines[ln : ln + 1] = [L[:s] + f" -- {tag}", " " * s + L[e:]]
                elif k == "CD":
                    lines[ln] = L[:s] + f" /* {tag} */ " + L[e:]
                elif k == "CDG":
                    lines[ln] = L[:s] + f"/* {tag} */" + L[e:]
            elif k == "WI":
                lines[ln] = L[:c] + " " + L[c:]
            elif k == "CDI":
                lines[ln] = L[:c] + f"/* {tag} */" + L[c:]
            elif k == "CO":
                lines[ln + 1 : ln + 1] = [f"  -- {tag}"]
            elif k == "CO0":
                lines[ln + 1 : ln + 1] = [f"-- {tag}"]
            elif k == "PPO":
                lines[ln + 1 : ln + 1] = [f"#ifdef VSGMC_{tag.upper()}"]  # an own-line preprocessor directive (opaque to VSG)
            elif k == "PGO":
                lines[ln + 1 : ln + 1] = [f"  -- synthesis vsgmc_{tag}"]  # an own-line single pragma
            elif k == "BL":
                lines[ln + 1 : ln + 1] = [""]
            elif k == "J":
                lines[ln : ln + 2] = [L.rstrip(" \t") + " " + lines[ln + 1].lstrip(" \t")]
            elif k == "CEE":
                lines[ln] = L.rstrip(" \t") + f" -- {tag}"
            elif k == "CEG":
                lines[ln] = L.rstrip(" \t") + f"-- {tag}"
            elif k == "TW":
                lines[ln] = L + "  "
            elif k == "IND0":
                lines[ln] = L.lstrip(" \t")
            elif k == "IND3":
                lines[ln] = "   " + L.lstrip(" \t")
            elif k in OPS_WORD:
                e = c
                while e < len(L) and (L[e].isalnum() or L[e] == "_"):
                    e += 1
                f = {"UP": str.upper, "LO": str.lower, "CAP": str.capitalize, "UPI": str.upper}[k]
                lines[ln] = L[:c] + f(L[c:e]) + L[e:]
        for k, ln, c in ops:
            if k == "ALLJ":
                assert len(ops) == 1
                return [self._one_line()]
            if k in OPS_FILE:
                f = str.upper if k == "ALLUP" else str.lower
                # case-flip exactly the word positions of the seed (positions are stable only when this is the sole op)
                assert len(ops) == 1
                for wl, s, e in self.words:
                    L = lines[wl]
                    lines[wl] = L[:s] + f(L[s:e]) + L[e:]
        return lines


def vid(sid, ops):
    if not ops:
        return sid
    return sid + "@" + "+".join(f"L{ln + 1}c{c}:{k}" for k, ln, c in ops)
