"""./check <prop> [--tier quick|thorough] [--replay file]   |   ./check --setup   |   ./check --selftest"""
import argparse
import importlib
import json
import os
import sys
import time


def main():
    ap = argparse.ArgumentParser()
    ap.add_argument("prop", nargs="?")
    ap.add_argument("--tier", default=os.environ.get("VERIF_TIER") or "quick", choices=["quick", "thorough"])
    ap.add_argument("--replay")
    ap.add_argument("--setup", action="store_true")
    a = ap.parse_args()
    from . import base  # binds to the repository under test (exits 2 if vsg is imported from elsewhere)

    if a.setup:
        from . import setup

        sys.exit(setup.run())
    if not a.prop:
        ap.error("property id required")
    mod = importlib.import_module(f"vsgmc.props.{a.prop.lower()}")
    if a.replay:
        d = json.load(open(a.replay))
        import signal

        from . import explore

        signal.signal(signal.SIGALRM, explore._alarm)  # a replayed hang must end in the watchdog's exception, not kill the process
        keys = set(mod.reproduce(d["item"]))
        ctx = explore.context_of(d["item"])
        if ctx:
            keys |= {k + "|" + ctx[0] for k in keys}
        print(f"replay {a.replay}: expected key {d['key']!r}; observed keys: {sorted(keys)}")
        if d["key"] in keys:
            print(f"VIOLATION property={a.prop} replay={a.replay}")
            sys.exit(1)
        sys.exit(0)
    sys.exit(mod.main(a.tier))


main()
