"""./check --setup : offline, builds nothing that needs the network.  Verifies the vendored corpus against
its sha256 manifest, byte-compiles vsgmc, checks that the option-domain table covers every option found on
a live rule and that the docs specification parses, runs the oracle unit tests."""
import compileall
import os
import subprocess
import sys

from . import base, corpus, docspec, gen


def run():
    ok = True
    bad = corpus.verify()
    if bad:
        print("corpus files differ from manifest:", bad[:5])
        ok = False
    print(f"corpus: {len(corpus.manifest()['items'])} vendored seeds verified, {len(gen.ids())} generated designs admitted")
    if not compileall.compile_dir(os.path.join(base.VERIF, "vsgmc"), quiet=1, legacy=False):
        ok = False
    sp = docspec.spec()
    print(f"docspec: {len(sp)} documented rules")
    if len(sp) < 900:
        ok = False
    from .props import configs_k1

    miss = configs_k1.unknown_options()
    if miss:
        print("NOTE: options without a documented domain in specs/option_domains.json (not exercised):", miss)
    tests = os.path.join(base.VERIF, "tests")
    if os.path.isdir(tests) and any(f.startswith("test_") for f in os.listdir(tests)):
        p = subprocess.run([sys.executable, "-W", "ignore", "-m", "unittest", "discover", "-s", tests, "-t", base.VERIF, "-q"], cwd=base.VERIF)
        ok = ok and p.returncode == 0
    print("setup", "ok" if ok else "FAILED")
    return 0 if ok else 1
