"""Enumeration of the bounded input universe U_k = seeds x <=k layout/case deviations x configurations.
Items are small dicts (seed id, ops, style, cfg); the text is materialised in the worker."""
import itertools

from . import base, corpus, layout

K0 = (None, "jcl", "indent_only")

_si_cache = {}


def seedinfo(sid):
    si = _si_cache.get(sid)
    if si is None:
        if len(_si_cache) > 40:
            _si_cache.clear()
        si = layout.SeedInfo(sid, corpus.lines_of(sid))
        _si_cache[sid] = si
    return si


def materialise(item):
    """item -> list of lines"""
    if "lines" in item:
        return item["lines"]
    ops = [tuple(o) for o in item.get("ops", ())]
    if not ops:
        return list(corpus.lines_of(item["seed"]))
    return seedinfo(item["seed"]).apply(ops)


def mk(sid, ops=(), style=None, cfg=None, **kw):
    it = {"seed": sid, "ops": [list(o) for o in ops], "style": style, "cfg": cfg}
    it["id"] = layout.vid(sid, ops) + (f"%{style}" if style else "") + (f"%cfg:{kw.pop('cfgname')}" if "cfgname" in kw else "")
    it.update(kw)
    return it


def zero_dev(seeds, styles=K0):
    return [mk(s, (), st) for s in seeds for st in styles]


def one_dev(seeds, kinds, styles=(None,)):
    out = []
    for s in seeds:
        si = seedinfo(s)
        for op in si.ops(kinds):
            for st in styles:
                out.append(mk(s, (op,), st))
    return out


def two_dev(seeds, kinds, styles=(None,), max_dist_lines=None):
    out = []
    for s in seeds:
        si = seedinfo(s)
        ops = si.ops(kinds)
        for a, b in itertools.combinations(ops, 2):
            if a[1] == b[1] and a[2] == b[2]:
                continue
            if a[1] == b[1] and "J" in (a[0], b[0]):
                continue  # a join composed with another edit of the same line is not guaranteed to preserve meaning (a comment may end up in front of the joined code)
            if max_dist_lines is not None and abs(a[1] - b[1]) > max_dist_lines:
                continue
            for st in styles:
                out.append(mk(s, (a, b), st))
    return out


def focused(seeds_with_lines, kinds, styles=(None,), pad=1):
    """rule-focused slice F: for (seed, set of 0-based lines) only the ops on those lines +- pad"""
    out = []
    for s, lines in seeds_with_lines:
        want = set()
        for ln in lines:
            for d in range(-pad, pad + 1):
                want.add(ln + d)
        si = seedinfo(s)
        for op in si.ops(kinds):
            if op[1] in want:
                for st in styles:
                    out.append(mk(s, (op,), st))
    return out
