"""Bounded-exhaustive generated family S_gen (DESIGN §3.1): every single construct in a minimal
wrapper, every ordered pair of declarations / concurrent statements / sequential statements, every
nesting pair.  The admitted list (accepted by the pinned classifier) is frozen in
corpus/gen_manifest.json together with a hash of each text."""
import hashlib
import json
import os

DECL = {
    "sig": ["signal s1 : std_logic;"],
    "sigm": ["signal s2, s3 : std_logic_vector(7 downto 0) := (others => '0');"],
    "sig3": ["signal s4, s5, s6 : std_logic;"],
    "const": ["constant c1 : integer := 5;"],
    "consta": ["constant c2 : t_arr := (0 => 1, 1 => 2);"],
    "var": ["shared variable v1 : integer;"],
    "enum": ["type t_state is (idle, run, done);"],
    "rec": ["type t_rec is record", "  a : std_logic;", "  b : integer;", "end record t_rec;"],
    "arr": ["type t_arr is array (0 to 3) of integer;"],
    "arru": ["type t_uarr is array (natural range <>) of std_logic;"],
    "subt": ["subtype t_sub is integer range 0 to 7;"],
    "comp": ["component cmp is", "  generic (g : integer := 1);", "  port (a : in std_logic; b : out std_logic);", "end component cmp;"],
    "funcd": ["function f1 (x : integer) return integer;"],
    "funcb": ["function f2 (x : integer) return integer is", "begin", "  return x + 1;", "end function f2;"],
    "procb": ["procedure p1 (signal x : out std_logic) is", "begin", "  x <= '1';", "end procedure p1;"],
    "attr": ["attribute keep : string;", "attribute keep of s1 : signal is \"true\";"],
    "alias": ["alias al1 : std_logic is s1;"],
    "file": ["file f_in : text open read_mode is \"in.txt\";"],
}

CONC = {
    "sa": ["a <= b;"],
    "sal": ["lbl1 : a <= b and c;"],
    "cond": ["a <= b when c = '1' else d when e = '1' else '0';"],
    "sel": ["with s select a <=", "  b when \"00\",", "  c when \"01\",", "  d when others;"],
    "proc": ["p_main : process (clk, rst) is", "begin", "  if rising_edge(clk) then", "    q <= d;", "  end if;", "end process p_main;"],
    "proc2": ["p_two : process (clk) is", "begin", "  if rising_edge(clk) then", "    q <= d;", "    q_long <= d_in and e;", "  end if;", "end process p_two;"],
    "procall": ["process (all) is", "  variable v : integer;", "begin", "  v := 1;", "  q <= d;", "end process;"],
    "procw": ["process", "begin", "  wait until clk = '1';", "  q <= d;", "  wait;", "end process;"],
    "inst": ["u1 : cmp", "  generic map (g => 2)", "  port map (a => x, b => y);"],
    "insten": ["u2 : entity work.ent(rtl)", "  port map (a => x, b => open);"],
    "instcm": ["u3 : component cmp", "  port map (x, y);"],
    "ifgen": ["g_if : if G_EN = 1 generate", "  a <= b;", "end generate g_if;"],
    "forgen": ["g_for : for i in 0 to 3 generate", "  a(i) <= b(i);", "end generate g_for;"],
    "casegen": ["g_case : case sel generate", "  when 0 =>", "    a <= b;", "  when others =>", "    a <= c;", "end generate g_case;"],
    "block": ["blk : block is", "  signal bs : std_logic;", "begin", "  bs <= a;", "end block blk;"],
    "assert": ["assert a = b report \"mismatch\" severity error;"],
    "pcall": ["do_it(a, b);"],
}

SEQ = {
    "sa": ["a <= b;"],
    "va": ["v := v + 1;"],
    "sacond": ["a <= b when c = '1' else d;"],
    "sasel": ["with s select a <=", "  b when \"00\",", "  c when others;"],
    "if": ["if a = '1' then", "  b <= c;", "elsif d = '1' then", "  b <= e;", "else", "  b <= '0';", "end if;"],
    "case": ["case s is", "  when idle =>", "    b <= c;", "  when run | done =>", "    b <= d;", "  when others =>", "    null;", "end case;"],
    "for": ["for i in 0 to 3 loop", "  v := v + i;", "  exit when v > 5;", "end loop;"],
    "while": ["lp : while v < 10 loop", "  v := v + 1;", "  next lp when v = 3;", "end loop lp;"],
    "loop": ["loop", "  exit;", "end loop;"],
    "wait": ["wait for 10 ns;"],
    "waiton": ["wait on a, b until c = '1' for 10 ns;"],
    "waitu": ["wait until rising_edge(clk);"],
    "assert": ["assert v < 5 report \"x\" severity warning;"],
    "report": ["report \"hello\" severity note;"],
    "null": ["null;"],
    "pcall": ["do_it(a, v);"],
}

SEQ_NEST = {
    "if": (["if a = '1' then"], ["end if;"]),
    "case": (["case s is", "  when idle =>"], ["  when others =>", "    null;", "end case;"]),
    "for": (["for i in 0 to 3 loop"], ["end loop;"]),
}
CONC_NEST = {
    "ifgen": (["g_o : if G_EN = 1 generate"], ["end generate g_o;"]),
    "forgen": (["g_o : for j in 0 to 1 generate"], ["end generate g_o;"]),
    "block": (["b_o : block is", "begin"], ["end block b_o;"]),
}


def _ind(lines, n):
    return [(" " * n + ln) if ln else ln for ln in lines]


def _arch(decls, concs):
    out = ["library ieee;", "  use ieee.std_logic_1164.all;", "", "entity ent is", "  port (", "    clk : in    std_logic;", "    q   : out   std_logic", "  );", "end entity ent;", ""]
    out += ["architecture rtl of ent is", ""]
    out += _ind(decls, 2)
    out += ["", "begin", ""]
    out += _ind(concs, 2)
    out += ["", "end architecture rtl;"]
    return out


def _proc(seqs):
    return ["p_seq : process (clk) is", "  variable v : integer;", "begin"] + _ind(seqs, 2) + ["end process p_seq;"]


def _pkg(decls):
    return ["package pkg is", ""] + _ind(decls, 2) + ["", "end package pkg;"]


def _pkgb(decls):
    return ["package body pkg is", ""] + _ind(decls, 2) + ["", "end package body pkg;"]


def _build():
    d = {}
    for k, v in DECL.items():
        d[f"gen/decl/{k}"] = _arch(v, ["a <= b;"])
    for k in ("const", "enum", "rec", "arr", "subt", "comp", "funcd", "sig", "attr", "alias", "file"):
        d[f"gen/pkg/{k}"] = _pkg(DECL[k])
    for k in ("const", "funcb", "procb", "subt", "var"):
        d[f"gen/pkgb/{k}"] = _pkgb(DECL[k])
    for k, v in CONC.items():
        d[f"gen/conc/{k}"] = _arch(["signal s1 : std_logic;"], v)
    for k, v in SEQ.items():
        d[f"gen/seq/{k}"] = _arch([], _proc(v))
    d["gen/unit/context"] = ["context ctx is", "  library ieee;", "  use ieee.std_logic_1164.all;", "end context ctx;"]
    d["gen/unit/config"] = ["configuration cfg of ent is", "  for rtl", "    for u1 : cmp", "      use entity work.cmp(rtl);", "    end for;", "  end for;", "end configuration cfg;"]
    d["gen/unit/entgen"] = ["entity e2 is", "  generic (", "    g_w : integer := 8;", "    g_d : natural", "  );", "  port (", "    a, b : in    std_logic;", "    c    : inout std_logic_vector(g_w - 1 downto 0)", "  );", "end entity e2;"]
    d["gen/unit/entinl"] = ["entity e3 is", "  generic (", "    g_a : integer := 1;", "    g_b : natural := 2);", "  port (", "    a : in    std_logic;", "    b : out   std_logic);", "end entity e3;"]
    d["gen/unit/compinl"] = _arch(["component c3 is", "  generic (", "    g_a : integer := 1);", "  port (", "    a : in    std_logic;", "    b : out   std_logic);", "end component c3;"], ["a <= b;"])
    d["gen/conc/instinl"] = _arch([], ["u4 : entity work.e3", "  generic map (", "    g_a => 1,", "    g_b => 2)", "  port map (", "    a => x,", "    b => y);"])
    # multi-line lists whose elements carry parentheses of their own
    d["gen/conc/procml"] = _arch([], ["p_ml : process (clk, data_in(3),", "                rst(1 downto 0)", "    ) is", "begin", "  q <= d;", "end process p_ml;"])
    d["gen/conc/instml"] = _arch([], ["u5 : entity work.e3", "  port map (", "    a => to_x(b(3), 2),", "    b => c(7 downto 0)", "      );"])
    d["gen/seq/ifml"] = _arch([], _proc(["if (a(1) = '1' and", "    f(b, c(2)) = 3", "   ) then", "  b <= c;", "end if;"]))
    d["gen/seq/saml"] = _arch([], _proc(["a <= f(b(1),", "       c(2 downto 0))", "     & d;"]))
    d["gen/seq/pcallml"] = _arch([], _proc(["do_it(a(1),", "      g(b, 2)", "  );"]))
    single = sorted(d)
    for a in DECL:
        for b in DECL:
            if a != b:
                d[f"gen/decl2/{a}-{b}"] = _arch(DECL[a] + DECL[b], ["a <= b;"])
    for a in CONC:
        for b in CONC:
            if a != b:
                d[f"gen/conc2/{a}-{b}"] = _arch([], CONC[a] + CONC[b])
    for a in SEQ:
        for b in SEQ:
            if a != b:
                d[f"gen/seq2/{a}-{b}"] = _arch([], _proc(SEQ[a] + SEQ[b]))
    for o, (pre, post) in SEQ_NEST.items():
        for k, v in SEQ.items():
            extra = 4 if o == "case" else 2
            d[f"gen/seqn/{o}-{k}"] = _arch([], _proc(pre + _ind(v, extra) + post))
    for o, (pre, post) in CONC_NEST.items():
        for k, v in CONC.items():
            d[f"gen/concn/{o}-{k}"] = _arch([], pre + _ind(v, 2) + post)
    return d, single


_ALL, _SINGLE = _build()
_MAN = os.path.join(os.path.dirname(os.path.dirname(os.path.abspath(__file__))), "corpus", "gen_manifest.json")
_admitted = None


def _sha(lines):
    return hashlib.sha256("\n".join(lines).encode()).hexdigest()[:16]


def admitted():
    global _admitted
    if _admitted is None:
        if os.path.exists(_MAN):
            m = json.load(open(_MAN))
            _admitted = {k: v for k, v in m.items() if k in _ALL and _sha(_ALL[k]) == v}
        else:
            _admitted = {}
    return _admitted


def ids(single_only=False):
    a = admitted()
    if single_only:
        return [k for k in _SINGLE if k in a]
    return sorted(a)


def lines_of(sid):
    return list(_ALL[sid])


def freeze():
    """run by hand on the pinned tree: admit what the classifier accepts"""
    from . import base

    out = {}
    rej = []
    for k in sorted(_ALL):
        try:
            base.parse(_ALL[k])
            out[k] = _sha(_ALL[k])
        except Exception as e:  # noqa
            rej.append((k, type(e).__name__))
    json.dump(out, open(_MAN, "w"), indent=0, sort_keys=True)
    return len(out), rej
