"""Turning a merged exploration into: KNOWN-FINDING / VIOLATION lines, replay artefacts, the evidence
file, and the exit status (0 held / 1 unlisted violation / 2 harness error)."""
import hashlib
import json
import os
import sys
import time

from . import base

KF_PATH = os.path.join(base.VERIF, "known_findings.json")


def load_known():
    if not os.path.exists(KF_PATH):
        return {}, []
    d = json.load(open(KF_PATH))
    known = {}
    for e in d.get("findings", []):
        known[(e["property"], e["key"])] = e
    return known, d.get("fixed", [])


def key_str(key):
    return key if isinstance(key, str) else "|".join(str(k) for k in key)


def write_replay(prop, key, v):
    d = os.path.join(base.VERIF, "replays", prop)
    os.makedirs(d, exist_ok=True)
    ks = key_str(key)
    name = hashlib.sha1(ks.encode()).hexdigest()[:12] + ".json"
    path = os.path.join(d, name)
    text = None
    it = v.get("item")
    if isinstance(it, dict) and "seed" in it and "text" not in it and "lines" not in it:
        try:
            from . import universe

            text = universe.materialise(it)
        except Exception:  # noqa
            text = None
    with open(path, "w") as f:
        json.dump({"property": prop, "key": ks, "item": it, "detail": v.get("detail"), "variant_text": text,
                   "how_to_replay": f"./check {prop} --replay {path}"}, f, indent=1, default=str)
    return path


def finish(prop, tier, level, merged_list, t0, rule_text, assumptions, extra_cov=None, exhaustive=True, reproduce=None, technique=None, repro_horizon=60.0):
    """merged_list: list of explore.Merged (one per sub-exploration).  reproduce(item) -> set of key strings
    (re-execution of a single item; used to make sure a violation fails every time)."""
    known, fixed = load_known()
    evaluations = sum(m.evaluations for m in merged_list)
    transitions = sum(m.transitions for m in merged_list)
    effective = sum(m.effective for m in merged_list)
    states = set()
    nontrivial = set()
    samples = []
    viol = {}
    timeouts, herr, notes = [], [], []
    cut = False
    for m in merged_list:
        states |= m.states
        nontrivial |= m.nontrivial
        samples += m.samples
        for k, (idx, v) in m.violations.items():
            ks = key_str(k)
            if ks not in viol:
                viol[ks] = v
        timeouts += m.timeouts
        herr += m.harness_errors
        notes += m.notes
        cut = cut or m.budget_cut
    dump = os.environ.get("VSGMC_DUMP_KEYS")
    if dump:
        with open(dump, "w") as f:
            json.dump([{"property": prop, "key": ks, "witness": (viol[ks]["item"] or {}).get("id"), "detail": viol[ks].get("detail")} for ks in sorted(viol)], f, indent=1, default=str)
    status = 0
    n_known = 0
    n_new = 0
    for ks in sorted(viol):
        v = viol[ks]
        if (prop, ks) in known:
            n_known += 1
            print(f"KNOWN-FINDING: property={prop} {ks} witness={v['item'].get('id') if isinstance(v.get('item'), dict) else ''}")
            continue
        if reproduce is not None:
            import signal

            from . import explore

            signal.signal(signal.SIGALRM, explore._alarm)
            signal.setitimer(signal.ITIMER_REAL, repro_horizon)  # the same execution must fail again, hangs included
            try:
                again = reproduce(v["item"])
            except explore.Timeout:
                again = None
                print("HARNESS-ERROR reproduce hit the watchdog outside an attributed call")
            except Exception as e:  # noqa
                again = None
                print(f"HARNESS-ERROR reproduce raised {type(e).__name__}: {e}")
            finally:
                signal.setitimer(signal.ITIMER_REAL, 0)
            if again is not None:
                ctx = explore.context_of(v["item"])
                again = set(again) | {a + "|" + ctx[0] for a in again} if ctx else set(again)
            if again is None or ks not in again:
                print(f"HARNESS-ERROR non-reproducible outcome property={prop} key={ks}")
                status = 2
                continue
        path = write_replay(prop, ks, v)
        n_new += 1
        print(f"VIOLATION property={prop} replay={path}")
        print(f"  key: {ks}")
        det = v.get("detail")
        if det:
            print("  detail: " + json.dumps(det, default=str)[:1500])
        if status == 0:
            status = 1
    blocked = {}
    for n in notes:
        if n[0] == "blocked_by":
            blocked[n[1]] = blocked.get(n[1], 0) + 1
    for b, c in sorted(blocked.items()):
        print(f"NOTE: {c} execution(s) blocked_by {b}")
    if herr:
        print(f"HARNESS-ERROR {len(herr)} harness exception(s); first: {herr[0][:1200]}")
        status = 2
    if timeouts and prop != "C19":
        print(f"NOTE: {len(timeouts)} execution(s) hit the watchdog (owned by C19): {timeouts[:3]}")
    cov = {
        "evaluations": evaluations,
        "distinct_nontrivial": len(nontrivial),
        "rule": rule_text,
        "samples": samples[:5] or ["(none)"],
        "states": max(1, len(states)),
        "transitions": max(1, transitions),
        "effective_transitions": effective,
        "traces_validated_against_impl": evaluations,
        "exhaustive": bool(exhaustive and not cut),
        "budget_cut": cut,
        "violations_total": sum(m.violation_count for m in merged_list),
        "violation_keys": len(viol),
        "known_finding_keys_met": n_known,
        "blocked": blocked,
        "watchdog_timeouts": len(timeouts),
    }
    if technique:
        cov["technique"] = technique
    if extra_cov:
        cov.update(extra_cov)
    ev = {
        "property_id": prop,
        "tier": tier,
        "seed": base.SEED,
        "level": level,
        "coverage": cov,
        "assumptions": assumptions,
        "wall_s": round(time.time() - t0, 2),
        "violations": n_new,
    }
    if os.environ.get("VSGMC_LIST_IDS") or os.environ.get("VSGMC_SKIP_IDS"):
        print("calibration run (partial universe): no evidence written")
    else:
        os.makedirs(os.path.join(base.VERIF, "evidence"), exist_ok=True)
        with open(os.path.join(base.VERIF, "evidence", f"{prop}.json"), "w") as f:
            json.dump(ev, f, indent=1, default=_js)
    print(
        f"{prop} [{tier}] evaluations={evaluations} nontrivial={len(nontrivial)} states={len(states)} transitions={transitions} "
        f"effective={effective} violation_keys={len(viol)} known={n_known} new={n_new} wall={ev['wall_s']}s exhaustive={cov['exhaustive']}"
    )
    return status


def _js(o):
    if isinstance(o, (set, frozenset)):
        return sorted(o, key=str)
    return str(o)
