"""The documented class of every rule, parsed from the icon line of its section in docs/*_rules.rst
(an independent specification: the oracle of C03/C07/C20 never asks the code which group a rule is in)."""
import glob
import os
import re

from . import base

_spec = None
_HEAD = re.compile(r"^([a-z][a-z0-9_]*_[0-9]{3})\s*$")
GROUPS = ("structure", "whitespace", "blank_line", "indent", "alignment", "case", "naming", "length")


def spec():
    global _spec
    if _spec is not None:
        return _spec
    out = {}
    for path in sorted(glob.glob(os.path.join(base.REPO, "docs", "*_rules.rst"))):
        lines = open(path, encoding="utf-8").read().split("\n")
        i = 0
        while i < len(lines) - 1:
            m = _HEAD.match(lines[i])
            if m and lines[i + 1].startswith("####"):
                rid = m.group(1)
                for j in range(i + 2, min(i + 8, len(lines))):
                    if lines[j].startswith("|phase_"):
                        icons = re.findall(r"\|([a-z0-9_]+)\|", lines[j])
                        d = {"phase": None, "disabled": False, "severity": "error", "unfixable": False, "group": None, "icons": icons}
                        for ic in icons:
                            if ic.startswith("phase_"):
                                d["phase"] = int(ic[6:])
                            elif ic == "disabled":
                                d["disabled"] = True
                            elif ic in ("error", "warning"):
                                d["severity"] = ic
                            elif ic == "unfixable":
                                d["unfixable"] = True
                            elif ic in GROUPS and d["group"] is None:
                                d["group"] = ic
                        out[rid] = d
                        break
                i += 2
            else:
                i += 1
    _spec = out
    return out


LAYOUT_GROUPS = ("whitespace", "blank_line", "indent", "alignment")
