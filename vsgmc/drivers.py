"""Drivers: run the real code.  D_pipe = the product's own apply_rules.apply_rules on a scratch file with
observation points installed on the instances the real rule_list creates (DESIGN §3.3/3.4).
D_main = the real vsg.__main__.main() in-process."""
import contextlib
import copy
import io
import json
import os
import shutil
import sys
import types

from vsg import apply_rules as _ar
from vsg import cmd_line_args, config, parser
from vsg import rule_list as _rl_mod
from vsg.exceptions import ClassifyError

from . import base, explore

_scratch = None


def warm():
    """import every rule module once (in the parent, before workers are forked)"""
    from vsg import vhdlFile

    with contextlib.redirect_stdout(io.StringIO()):
        _rl_mod.rule_list(vhdlFile.vhdlFile([""]), None)


warm()


def scratch():
    global _scratch
    if _scratch is None or not os.path.isdir(_scratch) or not _scratch.endswith(f".{os.getpid()}"):
        _scratch = base.scratch_root()
        import atexit

        pid = os.getpid()
        d = _scratch

        def _rm():
            if os.getpid() == pid:
                shutil.rmtree(d, ignore_errors=True)

        atexit.register(_rm)
        # forked pool workers are terminated without running atexit: multiprocessing's own finalizer hook does run
        try:
            from multiprocessing import util as _mpu

            _mpu.Finalize(None, shutil.rmtree, args=(d,), kwargs={"ignore_errors": True}, exitpriority=0)
        except Exception:
            pass
    return _scratch


def parse_cla(argv):
    old = sys.argv
    sys.argv = ["vsg"] + list(argv)
    try:
        with contextlib.redirect_stdout(io.StringIO()), contextlib.redirect_stderr(io.StringIO()):
            return cmd_line_args.parse_command_line_arguments()
    finally:
        sys.argv = old


_cfg_cache = {}


def build_config(style, cfg, extra_argv=(), fix_only=None, name="design.vhd", lines=None):
    """returns (cla, oConfig, path) built by the real argument parser and the real config.New;
    config objects are cached per (style, cfg, argv) and deep-copied for every execution so that
    nothing an execution does to them can leak into the next one."""
    d = scratch()
    path = os.path.join(d, name)
    if lines is not None:
        with open(path, "w", encoding="utf-8", newline="\n") as f:
            f.write("\n".join(lines) + "\n")
    key = json.dumps([style, cfg, list(extra_argv), fix_only, name], sort_keys=True)
    if key not in _cfg_cache:
        argv = ["-f", path, "-p", "1"] + list(extra_argv)
        if style:
            argv += ["--style", style]
        if cfg is not None:
            cpath = os.path.join(d, "cfg.json")
            cfgs = cfg if isinstance(cfg, list) else [cfg]
            cpaths = []
            for i, c in enumerate(cfgs):
                cp = os.path.join(d, f"cfg{i}.json")
                with open(cp, "w") as f:
                    json.dump(c, f)
                cpaths.append(cp)
            argv += ["-c"] + cpaths
        if fix_only is not None:
            fp = os.path.join(d, "fix_only.json")
            with open(fp, "w") as f:
                json.dump(fix_only, f)
            argv += ["--fix_only", fp]
        cla = parse_cla(argv)
        with contextlib.redirect_stdout(io.StringIO()) as so:
            try:
                oConfig = config.New(cla)
            except SystemExit as e:
                _cfg_cache[key] = ("exit", so.getvalue(), None)
                oConfig = None
        if oConfig is not None:
            _cfg_cache[key] = (cla, oConfig, None)
        if len(_cfg_cache) > 64:
            for k in list(_cfg_cache)[:32]:
                del _cfg_cache[k]
    cla, oConfig, _ = _cfg_cache[key]
    if cla == "exit":
        return None, oConfig, path
    return copy.copy(cla), copy.deepcopy(oConfig), path


# ------------------------------------------------------------------------------------------------
class Snap:
    __slots__ = ("toks", "vals", "_lines", "_line_of")

    def __init__(self, lAll):
        self.toks = list(lAll)
        self.vals = [t.value for t in lAll]
        self._lines = None
        self._line_of = None

    def same(self, other):
        return self.vals == other.vals and self.toks == other.toks  # tokens define no __eq__: list equality is identity

    def same_text(self, other):
        return self.lines() == other.lines()

    def lines(self):
        if self._lines is None:
            out = []
            cur = []
            for t, v in zip(self.toks, self.vals):
                if isinstance(t, parser.carriage_return):
                    out.append("".join(cur))
                    cur = []
                else:
                    cur.append(v)
            if cur:
                out.append("".join(cur))
            self._lines = out
        return self._lines


class Monitor:
    def on_start(self, ex):
        pass

    def before_fix(self, ex, rule):
        pass

    def after_fix(self, ex, rule, before, after, changed):
        pass

    def on_system(self, ex, name, before, after, changed):
        pass

    def on_update(self, ex, rule, lUpdates):
        pass

    def before_analyze(self, ex, rule, stage):
        pass

    def after_analyze(self, ex, rule, stage):
        pass

    def on_toi(self, ex, rule, lToi, stage):
        pass

    def on_stage(self, ex, stage):
        pass

    def on_end(self, ex):
        pass


SHADOWS = ("fix", "analyze", "_get_tokens_of_interest")
FILE_SHADOWS = ("update", "fix_blank_lines", "fix_trailing_whitespace", "set_token_indent")


def clone_rule(r):
    n = object.__new__(type(r))
    d = {}
    for k, v in r.__dict__.items():
        if k in SHADOWS:
            continue
        try:
            d[k] = copy.deepcopy(v)
        except TypeError:
            d[k] = v  # modules / classes held as configuration constants: shared
    n.__dict__ = d
    return n


def clone_file(f):
    n = object.__new__(type(f))
    d = {k: v for k, v in f.__dict__.items() if k not in FILE_SHADOWS}
    # configuration / command line objects are shared read-only
    shared = {k: d.pop(k) for k in ("configuration", "commandLineArguments", "dIndentMap") if k in d}
    n.__dict__ = copy.deepcopy(d)
    n.__dict__.update(shared)
    return n


class Exec:
    """one execution of the pipeline; monitors append to .violations"""

    def __init__(self, item, monitors):
        self.item = item
        self.monitors = monitors
        self.rl = None
        self.oFile = None
        self.snap = None
        self.stage = "configure"
        self.in_fix = None
        self.violations = []
        self.transitions = 0
        self.effective = 0
        self.effective_rules = []
        self.states = set()
        self.outcome = "ok"
        self.exception = None
        self.result = None
        self.stdout = ""
        self.final_lines = None
        self.input_lines = None
        self.path = None
        self.cla = None
        self.oConfig = None
        self.notes = []
        self.kind = "fix"
        self.applied = None
        self.written = False

    def violation(self, key, detail):
        self.violations.append({"key": key, "detail": detail, "item": self.item})

    def resnap(self):
        self.snap = Snap(self.oFile.lAllObjects)
        return self.snap


def _instrument(ex):
    rl, oFile, mons = ex.rl, ex.oFile, ex.monitors
    for r in rl.rules:
        orig_fix = r.fix
        orig_an = r.analyze

        def fix(oF, dFixOnly=None, r=r, orig=orig_fix):
            for m in mons:
                m.before_fix(ex, r)
            before = ex.snap
            ex.in_fix = r
            ex.applied = None
            try:
                orig(oF, dFixOnly)
            finally:
                ex.in_fix = None
            after = Snap(oF.lAllObjects)
            changed = not before.same(after)
            ex.transitions += 1
            if changed:
                ex.effective += 1
                ex.effective_rules.append(r.unique_id)
                ex.snap = after
                ex.states.add(base.h64(after.vals))
            else:
                after = before
            for m in mons:
                m.after_fix(ex, r, before, after, changed)

        def analyze(oF, r=r, orig=orig_an):
            nested = ex.in_fix is r
            stage = "fix" if nested else ex.stage
            for m in mons:
                m.before_analyze(ex, r, stage)
            orig(oF)
            if not nested:
                ex.transitions += 1
            for m in mons:
                m.after_analyze(ex, r, stage)
            if not nested and stage == "fix":
                # rule_list.fix analyses (does not fix) rules whose severity is not an error type:
                # observed as a transition that must be a self-loop
                before = ex.snap
                after = Snap(oF.lAllObjects)
                changed = not before.same(after)
                if changed:
                    ex.effective += 1
                    ex.effective_rules.append(r.unique_id)
                    ex.snap = after
                else:
                    after = before
                ex.kind = "analyze_only"
                for m in mons:
                    m.after_fix(ex, r, before, after, changed)
                ex.kind = "fix"

        r.fix = fix
        r.analyze = analyze
        if ex.want_toi and hasattr(r, "_get_tokens_of_interest"):
            orig_toi = r._get_tokens_of_interest

            def toi(oF, r=r, orig=orig_toi):
                l = orig(oF)
                stage = "fix" if ex.in_fix is r else ex.stage
                for m in mons:
                    m.on_toi(ex, r, l, stage)
                return l

            r._get_tokens_of_interest = toi

    orig_update = oFile.update

    def update(lUpdates, bUpdateMap, orig=orig_update):
        ex.applied = list(lUpdates)
        for m in mons:
            m.on_update(ex, ex.in_fix, lUpdates)
        return orig(lUpdates, bUpdateMap)

    oFile.update = update

    def sysw(name):
        orig = getattr(oFile, name)

        def f(*a, **k):
            before = ex.snap
            r = orig(*a, **k)
            after = Snap(oFile.lAllObjects)
            changed = not before.same(after)
            if changed:
                ex.snap = after
            else:
                after = before
            for m in mons:
                m.on_system(ex, name, before, after, changed)
            return r

        setattr(oFile, name, f)

    for nm in ("fix_blank_lines", "fix_trailing_whitespace"):
        sysw(nm)

    for nm in ("fix", "check_rules"):
        orig = getattr(rl, nm)

        def st(*a, nm=nm, orig=orig, **k):
            ex.stage = nm if nm == "fix" else "check"
            for m in mons:
                m.on_stage(ex, ex.stage)
            try:
                return orig(*a, **k)
            finally:
                ex.stage = "after_" + nm
                for m in mons:
                    m.on_stage(ex, ex.stage)

        setattr(rl, nm, st)


def d_pipe(item, monitors=(), want_toi=False, fix=True, extra_argv=(), keep_file=False):
    """item: dict(id, lines, style, cfg, [fix_only], [argv]).  Runs the real apply_rules."""
    ex = Exec({k: v for k, v in item.items() if k != "lines"}, list(monitors))
    ex.want_toi = want_toi
    ex.input_lines = item["lines"]
    argv = list(item.get("argv", ())) + list(extra_argv)
    if fix and "--fix" not in argv:
        argv = ["--fix"] + argv
    cla, oConfig, path = build_config(item.get("style"), item.get("cfg"), argv, item.get("fix_only"), lines=item["lines"])
    ex.path = path
    if cla is None:
        ex.outcome = "config_exit"
        ex.stdout = oConfig
        return ex
    ex.cla, ex.oConfig = cla, oConfig
    real_cls = _rl_mod.rule_list

    def factory(oVhdlFile, *a, **k):
        rl = real_cls(oVhdlFile, *a, **k)
        ex.rl, ex.oFile = rl, oVhdlFile
        ex.snap = Snap(oVhdlFile.lAllObjects)
        ex.states.add(base.h64(ex.snap.vals))
        for m in ex.monitors:
            m.on_start(ex)
        _instrument(ex)
        return rl

    try:
        st0 = os.stat(path)
        st0 = (st0.st_ino, st0.st_mtime_ns)
    except OSError:
        st0 = None
    proxy = types.SimpleNamespace(rule_list=factory)
    saved = _ar.rule_list
    _ar.rule_list = proxy
    so, se = io.StringIO(), io.StringIO()
    try:
        with contextlib.redirect_stdout(so), contextlib.redirect_stderr(se):
            ex.result = _ar.apply_rules(cla, oConfig, (0, path))
    except explore.Timeout:
        ex.outcome = "timeout"
        ex.exception = ("Timeout", f"in {ex.in_fix.unique_id if ex.in_fix else ex.stage}")
    except ClassifyError as e:
        ex.outcome = "exception"
        ex.exception = ("ClassifyError", explore.repo_frame(sys.exc_info()[2]), str(getattr(e, "message", e))[:200])
    except RecursionError as e:
        ex.outcome = "exception"
        ex.exception = ("RecursionError", "?", "")
    except Exception as e:
        import traceback as _tb

        for fs in reversed(_tb.extract_tb(sys.exc_info()[2])):
            fn = os.path.realpath(fs.filename)
            if fn.startswith(base.VERIF + os.sep):
                raise  # raised by (or below) the harness itself: never a verdict about the product
            if fn.startswith(base.REPO + os.sep):
                break
        ex.outcome = "exception"
        ex.exception = (type(e).__name__, explore.repo_frame(sys.exc_info()[2]), str(e)[:200], ex.in_fix.unique_id if ex.in_fix else ex.stage)
    finally:
        _ar.rule_list = saved
    ex.stdout = so.getvalue()
    try:
        st1 = os.stat(path)
        ex.written = st0 is not None and (st1.st_ino, st1.st_mtime_ns) != st0
    except OSError:
        ex.written = True
    if ex.outcome == "ok" and ex.rl is None:
        ex.outcome = "rejected"  # ClassifyError / configuration error handled by apply_rules
    try:
        with open(path, encoding="utf-8") as f:
            txt = f.read()
        ex.final_lines = txt.split("\n")
        if ex.final_lines and ex.final_lines[-1] == "":
            ex.final_lines.pop()
    except OSError:
        ex.final_lines = None
    if ex.outcome == "ok":
        for m in ex.monitors:
            m.on_end(ex)
    return ex


# ------------------------------------------------------------------------------------------------
def d_main(argv, stdin_text=None, cwd=None):
    """the real main() in-process: returns (exit status, stdout, stderr, escaped exception or None)"""
    from vsg import __main__ as vmain

    old_argv, old_stdin = sys.argv, sys.stdin
    sys.argv = ["vsg"] + list(argv)
    if stdin_text is not None:
        sys.stdin = io.StringIO(stdin_text)
    so, se = io.StringIO(), io.StringIO()
    status, exc = None, None
    oldcwd = os.getcwd()
    if cwd:
        os.chdir(cwd)
    try:
        with contextlib.redirect_stdout(so), contextlib.redirect_stderr(se):
            try:
                vmain.main()
            except SystemExit as e:
                status = e.code
            except explore.Timeout:
                raise
            except BaseException as e:  # noqa
                exc = (type(e).__name__, explore.repo_frame(sys.exc_info()[2]), str(e)[:200])
    finally:
        sys.argv, sys.stdin = old_argv, old_stdin
        os.chdir(oldcwd)
    if status is True:
        status = 1
    elif status is False or status is None and exc is None:
        status = 0
    return status, so.getvalue(), se.getvalue(), exc


def d_cli(argv, stdin_text=None, cwd=None):
    import subprocess

    env = dict(os.environ)
    env["PYTHONPATH"] = base.REPO + (os.pathsep + env["PYTHONPATH"] if env.get("PYTHONPATH") else "")
    p = subprocess.run(
        [sys.executable, "-W", "ignore", "-c", "from vsg.__main__ import main; main()"] + list(argv),
        input=stdin_text if stdin_text is not None else "",
        capture_output=True,
        text=True,
        cwd=cwd,
        env=env,
    )
    return p.returncode, p.stdout, p.stderr
