#!/venv/bin/python
"""Vendoring script (run by hand): copies seed designs from /repo/tests into /verif/corpus and
writes corpus/manifest.json (sha256, line count, accepted-by-pinned-classifier flag)."""
import glob, hashlib, json, os, shutil, sys
sys.setrecursionlimit(10000)
REPO = os.environ.get("VSGMC_REPO", "/repo")
OUT = os.path.join(os.path.dirname(os.path.abspath(__file__)), "corpus")
from vsg import vhdlFile
from vsg.vhdlFile import utils as vutils

def accepted(path):
    lines, err = vutils.read_vhdlfile(path)
    try:
        vhdlFile.vhdlFile(lines)
        return True
    except Exception as e:
        return False

items = []
def add(kind, sid, src):
    dst = os.path.join(OUT, kind, sid + ".vhd")
    os.makedirs(os.path.dirname(dst), exist_ok=True)
    shutil.copyfile(src, dst)
    data = open(dst, "rb").read()
    items.append({"id": f"{kind}/{sid}", "kind": kind, "file": os.path.relpath(dst, OUT),
                  "sha256": hashlib.sha256(data).hexdigest(), "lines": data.count(b"\n"),
                  "accepted": accepted(dst), "src": os.path.relpath(src, REPO)})

for p in sorted(glob.glob(f"{REPO}/tests/*/rule_[0-9][0-9][0-9]_test_input.vhd")):
    d = os.path.basename(os.path.dirname(p)); n = os.path.basename(p)[5:8]
    add("fix", f"{d}/rule_{n}", p)
for p in sorted(glob.glob(f"{REPO}/tests/vhdlFile/*/classification_test_input.vhd")):
    add("cls", os.path.basename(os.path.dirname(p)), p)
for p in sorted(glob.glob(f"{REPO}/tests/styles/code_examples/**/*.vhd", recursive=True)):
    rel = os.path.relpath(p, f"{REPO}/tests/styles/code_examples")[:-4]
    add("big", rel, p)
json.dump({"pinned": open("/root/.vp/repo_root_sha").read().strip() if os.path.exists("/root/.vp/repo_root_sha") else "", "items": items},
          open(os.path.join(OUT, "manifest.json"), "w"), indent=1)
print(len(items), sum(1 for i in items if i["accepted"]))
